package compile

import "github.com/sdcio/yang-parser/vrt"

// VerifH_CompileSmoke: engine viability for the compiler.
func VerifH_CompileSmoke() {
	texts := map[string]string{
		"m": `module m { namespace "urn:m"; prefix m;
			typedef t1 { type uint8 { range "1..10"; } default 5; }
			grouping g { leaf gl { type string; } }
			feature f1;
			container c { presence "p"; leaf a { type t1; } uses g; leaf b { if-feature f1; type string; must "../a > 3"; } }
			list l { key k; leaf k { type string; } leaf v { type int32; } }
		}`,
	}
	ms, err := compileTexts(texts, featSet{"m:f1": true}, nil)
	if err != nil {
		vrt.Observe("error", err.Error())
		vrt.Assert(false, "smoke.compiles")
		return
	}
	vrt.Observe("dump", dumpModelSet(ms))
}
