package compile

import (
	"strconv"

	"github.com/sdcio/yang-parser/vrt"
)

// VerifH_CompileSmoke: engine viability for the compiler.
func VerifH_CompileSmoke() {
	texts := map[string]string{
		"m": `module m { namespace "urn:m"; prefix m;
			typedef t1 { type uint8 { range "1..10"; } default 5; }
			grouping g { leaf gl { type string; } }
			feature f1;
			container c { presence "p"; leaf a { type t1; } uses g; leaf b { if-feature f1; type string; must "../a > 3"; } }
			list l { key k; leaf k { type string; } leaf v { type int32; } }
		}`,
	}
	ms, err := compileTexts(texts, featSet{"m:f1": true}, nil)
	if err != nil {
		vrt.Observe("error", err.Error())
		vrt.Assert(false, "smoke.compiles")
		return
	}
	vrt.Observe("dump", dumpModelSet(ms))
}

// ---------------------------------------------------------------- C11

// VerifH_C11_Determinism: the same module set compiled under every map-iteration policy
// of the executor and every insertion order of the input map gives the same outcome.
func VerifH_C11_Determinism() {
	variant := vrt.Choice("variant", 4)
	var texts [][2]string
	switch variant {
	case 0: // identities with equal local names in two modules deriving from one base
		texts = [][2]string{
			{"basem", "module basem { namespace 'urn:b'; prefix b; identity transport; identity tcp { base transport; } identity udp { base transport; } }"},
			{"extm", "module extm { namespace 'urn:e'; prefix e; import basem { prefix b; } identity tcp { base b:transport; } identity sctp { base b:transport; } }"},
			{"app", "module app { namespace 'urn:a'; prefix a; import basem { prefix b; } leaf proto { type identityref { base b:transport; } } }"},
		}
	case 1: // features across modules, groupings, augments from two modules onto one target
		texts = [][2]string{
			{"m1", "module m1 { namespace 'urn:1'; prefix m1; feature f; container c { leaf a { type string; } } grouping g { leaf gl { type uint8; } } }"},
			{"m2", "module m2 { namespace 'urn:2'; prefix m2; import m1 { prefix m1; } augment /m1:c { leaf b { type string; } uses m1:g; } }"},
			{"m3", "module m3 { namespace 'urn:3'; prefix m3; import m1 { prefix m1; } augment /m1:c { leaf d { if-feature m1:f; type string; } } }"},
		}
	case 2: // a module with a submodule and a deviation from a third module
		texts = [][2]string{
			{"main", "module main { namespace 'urn:m'; prefix m; include sub; container c { uses sg; leaf l { type string; } } }"},
			{"sub", "submodule sub { belongs-to main { prefix m; } grouping sg { leaf s { type string; } } }"},
			{"dev", "module dev { namespace 'urn:d'; prefix d; import main { prefix m; } deviation /m:c/m:l { deviate add { default 'x'; } } }"},
		}
	case 3: // two modules deviating the same node with deviations that do not commute
		texts = [][2]string{
			{"tgt", "module tgt { namespace 'urn:t'; prefix t; container c { leaf l { type uint8; default 1; } } }"},
			{"deva", "module deva { namespace 'urn:da'; prefix da; import tgt { prefix t; } deviation /t:c/t:l { deviate replace { default 5; } } }"},
			{"devb", "module devb { namespace 'urn:db'; prefix db; import tgt { prefix t; } deviation /t:c/t:l { deviate replace { default 7; } } }"},
		}
	}
	perm := [][]int{{0, 1, 2}, {0, 2, 1}, {1, 0, 2}, {1, 2, 0}, {2, 0, 1}, {2, 1, 0}}[vrt.Choice("insertion-order", 6)]
	policy := vrt.Choice("map-order-policy", 6)
	build := func(order []int) map[string]string {
		m := map[string]string{}
		for _, k := range order {
			m[texts[k][0]] = texts[k][1]
		}
		return m
	}
	feats := featSet{"m1:f": true}
	vrt.MapOrder(0)
	ref, refErr := compileTexts(build([]int{0, 1, 2}), feats, nil)
	vrt.MapOrder(policy)
	got, gotErr := compileTexts(build(perm), feats, nil)
	vrt.MapOrder(0)
	vrt.Reach("c11.determinism.variant" + strconv.Itoa(variant))
	if refErr != nil {
		vrt.Observe("reference-error", true) // the text may name a different offender per map order
	}
	vrt.Assert((refErr == nil) == (gotErr == nil), "c11.determinism.same-verdict")
	// the fixed module sets are valid: a verdict that is an error under every order would
	// make the comparison vacuous
	vrt.Assert(refErr == nil, "c11.determinism.reference-compiles")
	if refErr != nil || gotErr != nil {
		return
	}
	same := dumpModelSet(ref) == dumpModelSet(got)
	if !vrt.Symbolic() {
		// native confirmation: Go randomises map iteration on every range, so an order
		// dependence shows up when the compilation is simply repeated
		for r := 0; r < 40 && same; r++ {
			again, e := compileTexts(build(perm), feats, nil)
			if e != nil || dumpModelSet(again) != dumpModelSet(ref) {
				same = false
			}
		}
	}
	vrt.Assert(same, "c11.determinism.same-schema")
}

// VerifH_C11_Cycles: reference graphs with nondeterministic edges (cycles, self
// references, dangling references) must end in an error or a schema, never in a panic
// or in unbounded recursion.
func VerifH_C11_Cycles() {
	kind := vrt.Param("kind", -1) // 0 imports, 1 groupings, 2 typedefs, 3 identities, 4 features
	if kind < 0 {
		kind = vrt.Choice("kind", 5)
	}
	// edges i -> j among three entities
	var e [3][3]bool
	for i := 0; i < 3; i++ {
		for j := 0; j < 3; j++ {
			e[i][j] = vrt.Bool("e" + strconv.Itoa(i) + strconv.Itoa(j))
		}
	}
	if kind == 0 {
		// a module importing itself is left unspecified (not generated)
		vrt.Assume(!e[0][0] && !e[1][1] && !e[2][2])
	}
	// single-reference kinds: at most one outgoing edge
	single := kind == 2 || kind == 3
	if single {
		for i := 0; i < 3; i++ {
			n := 0
			for j := 0; j < 3; j++ {
				if e[i][j] {
					n++
				}
			}
			vrt.Assume(n <= 1)
		}
	}
	// reference: is there a cycle?
	cyc := false
	var reach [3][3]bool
	for i := 0; i < 3; i++ {
		for j := 0; j < 3; j++ {
			reach[i][j] = e[i][j]
		}
	}
	for k := 0; k < 3; k++ {
		for i := 0; i < 3; i++ {
			for j := 0; j < 3; j++ {
				if reach[i][k] && reach[k][j] {
					reach[i][j] = true
				}
			}
		}
	}
	for i := 0; i < 3; i++ {
		if reach[i][i] {
			cyc = true
		}
	}
	n := []string{"a", "b", "c"}
	// references written by entity i carry the module's OWN prefix when own[i] is set
	// (a reference "m:x" inside module m is the same reference as "x")
	ref := func(i, j int) string { return n[j] }
	if kind != 0 {
		var own [3]bool
		for i := 0; i < 3; i++ {
			own[i] = vrt.Bool("ownprefix" + strconv.Itoa(i))
		}
		ref = func(i, j int) string {
			if own[i] {
				return "m:" + n[j]
			}
			return n[j]
		}
	}
	// where the uses statements of a grouping sit: 0 directly in its body, 1 one level
	// down inside a container, 2 inside a grouping defined in its body that nothing uses
	nest := 0
	if kind == 1 {
		nest = vrt.Choice("uses-nested-in", 3)
	}
	texts := map[string]string{}
	switch kind {
	case 0:
		// module a may carry its import of c in a submodule, under the prefix a itself
		// uses for b (a submodule has its own prefix scope; the import still counts for a)
		viaSub := e[0][2] && vrt.Bool("a-imports-c-via-submodule")
		if viaSub {
			texts["asub"] = "submodule asub { belongs-to a { prefix a; } import c { prefix pb; } }"
		}
		for i := 0; i < 3; i++ {
			t := "module " + n[i] + " { namespace 'urn:" + n[i] + "'; prefix " + n[i] + "; "
			for j := 0; j < 3; j++ {
				if e[i][j] && i != j && !(viaSub && i == 0 && j == 2) {
					t += "import " + n[j] + " { prefix p" + n[j] + "; } "
				}
			}
			if viaSub && i == 0 {
				t += "include asub; "
			}
			// a self import is written too
			if e[i][i] {
				t += "import " + n[i] + " { prefix self; } "
			}
			texts[n[i]] = t + "leaf l" + n[i] + " { type string; } }"
		}
	default:
		t := "module m { namespace 'urn:m'; prefix m; "
		for i := 0; i < 3; i++ {
			switch kind {
			case 1:
				// the uses statements of grouping i sit directly in its body, or one level
				// down inside a container (expanded all the same when the grouping is used)
				t += "grouping " + n[i] + " { leaf l" + n[i] + " { type string; } "
				open, shut := "", ""
				switch nest {
				case 1:
					open, shut = "container box"+n[i]+" { ", "} "
				case 2:
					open, shut = "grouping in"+n[i]+" { ", "} "
				}
				t += open
				for j := 0; j < 3; j++ {
					if e[i][j] {
						t += "uses " + ref(i, j) + "; "
					}
				}
				t += shut + "} "
			case 2:
				base := "string"
				for j := 0; j < 3; j++ {
					if e[i][j] {
						base = ref(i, j)
					}
				}
				t += "typedef " + n[i] + " { type " + base + "; } "
			case 3:
				t += "identity " + n[i] + " { "
				for j := 0; j < 3; j++ {
					if e[i][j] {
						t += "base " + ref(i, j) + "; "
					}
				}
				t += "} "
			case 4:
				t += "feature " + n[i] + " { "
				for j := 0; j < 3; j++ {
					if e[i][j] {
						t += "if-feature " + ref(i, j) + "; "
					}
				}
				t += "} "
			}
		}
		switch kind {
		case 1:
			t += "container top { uses a; } "
		case 2:
			// the leaf that uses the typedef chain may be named in a list's unique statement
			if vrt.Bool("leaf-named-in-unique") {
				t += "list top { key k; unique v; leaf k { type string; } leaf v { type a; } } "
			} else {
				t += "leaf top { type a; } "
			}
		case 3:
			t += "leaf top { type identityref { base a; } } "
		case 4:
			t += "leaf top { if-feature a; type string; } "
		}
		texts["m"] = t + "}"
	}
	vrt.Class("C11-typedef-cycle-unbounded-recursion", kind == 2 && cyc)
	vrt.Class("C11-grouping-cycle-unbounded-recursion", kind == 1 && cyc)
	vrt.Reach("c11.cycles.kind" + strconv.Itoa(kind))
	var err error
	ok, ptxt := vrt.NoPanic(func() {
		_, err = compileTexts(texts, featSet{"m:a": true, "m:b": true, "m:c": true}, nil)
	})
	if !ok {
		vrt.Observe("panic", ptxt)
	}
	vrt.Assert(ok, "c11.cycles.no-panic")
	if !ok {
		return
	}
	if err != nil {
		vrt.Observe("verdict", kind, true) // error texts depend on map iteration order
	}
	// typedef chains are resolved on demand: only a cycle reachable from the typedef the
	// leaf uses must be reported (an unused cyclic typedef is left unspecified)
	if kind == 2 {
		cyc = reach[0][0]
		for k := 1; k < 3; k++ {
			if reach[0][k] && reach[k][k] {
				cyc = true
			}
		}
		unusedCycle := !cyc && (reach[1][1] || reach[2][2])
		if unusedCycle {
			vrt.Reach("c11.cycles.unused-typedef-cycle-unspecified")
			return
		}
	}
	if cyc {
		if nest == 2 {
			// a chain that closes only through a grouping nothing uses: termination
			// and no panic are asserted, the verdict is left unspecified
			vrt.Reach("c11.cycles.cycle-through-unused-nested-grouping")
			return
		}
		vrt.Assert(err != nil, "c11.cycles.cycle-is-an-error")
		return
	}
	// an acyclic diamond of groupings duplicates the shared grouping's nodes (a
	// legitimate name clash): not asserted
	if kind == 1 {
		for i := 0; i < 3; i++ {
			for j := 0; j < 3; j++ {
				n := 0
				if e[i][j] {
					n++
				}
				for k := 0; k < 3; k++ {
					if k != i && k != j && e[i][k] && e[k][j] {
						n++
					}
				}
				if n >= 2 {
					vrt.Reach("c11.cycles.grouping-diamond-unspecified")
					return
				}
			}
		}
	}
	vrt.Assert(err == nil, "c11.cycles.acyclic-graph-compiles")
}

// VerifH_C11_IllFormed: ill-formed references of every kind the compiler resolves.  One
// or two defects are planted into a valid two-module set; the compile must return an
// error (no panic, no hang), under every map-iteration policy, and a set without
// planted defect must compile.
var c11Defects = []struct{ where, text string }{
	{"body", "leaf d1 { type nosuchtype; }"},
	{"body", "leaf d2 { type q:t; }"},
	{"body", "container d3 { uses nosuchgrouping; }"},
	{"body", "container d4 { uses q:g; }"},
	{"body", "leaf d5 { if-feature nosuchfeature; type string; }"},
	{"body", "identity d6 { base nosuchidentity; }"},
	{"body", "leaf d7 { type identityref { base nosuchidentity; } }"},
	{"head", "import nosuchmodule { prefix nm; }"},
	{"head", "include nosuchsubmodule;"},
	{"body", "augment /l:nosuchnode { leaf d10 { type string; } }"},
	{"body", "deviation /l:nosuchnode { deviate not-supported; }"},
	{"body", "list d12 { key nosuchleaf; leaf k { type string; } }"},
	{"body", "list d13 { key k; unique nosuchleaf; leaf k { type string; } }"},
	{"body", "leaf d14 { type uint8; default 300; }"},
	{"body", "container d15 { uses l:g { refine nosuchnode { default 'x'; } } }"},
	{"body", "leaf d16 { type string; must \"../a +\"; }"},
	{"body", "leaf d17 { type leafref { path \"/l:c/[\"; } }"},
	{"body", "leaf d18 { type enumeration; }"},
	{"body", "leaf d19 { type union; }"},
	{"body", "leaf d20 { type decimal64; }"},
	{"body", "choice d21 { default nosuchcase; case x { leaf xx { type string; } } }"},
	{"body", "leaf d22 { type string { range '1..2'; } }"},
	{"body", "typedef d23 { type uint8 { range '5..1'; } }"},
	{"body", "leaf a { type string; }"}, // redefinition of a sibling
	{"body", "leaf d25 { type l:nosuchtypedef; }"},
	{"body", "container d26 { leaf x { type string; config true; } config false; }"},
}

func VerifH_C11_IllFormed() {
	n := len(c11Defects)
	first := vrt.Choice("defect", n+1) // n = none
	second := n
	if first < n && vrt.Param("pairs", 0) == 1 && vrt.Bool("two") {
		second = vrt.Choice("second", n)
		vrt.Assume(second != first)
	}
	policy := vrt.Choice("map-order-policy", 6)
	head, body := "", ""
	for _, k := range []int{first, second} {
		if k < n {
			if c11Defects[k].where == "head" {
				head += c11Defects[k].text + " "
			} else {
				body += c11Defects[k].text + " "
			}
		}
	}
	texts := map[string]string{
		"lib": "module lib { namespace 'urn:l'; prefix l; grouping g { leaf gl { type string; } } typedef t { type uint8; } container c { leaf cl { type string; } } }",
		"app": "module app { namespace 'urn:a'; prefix a; import lib { prefix l; } " + head + "leaf a { type l:t; } container u { uses l:g; } " + body + "}",
	}
	vrt.MapOrder(0)
	var err0, err error
	ok0, _ := vrt.NoPanic(func() {
		_, err0 = compileTexts(texts, featSet{}, nil)
	})
	vrt.MapOrder(policy)
	ok, ptxt := vrt.NoPanic(func() {
		_, err = compileTexts(texts, featSet{}, nil)
	})
	vrt.MapOrder(0)
	vrt.Reach("c11.illformed")
	if !ok {
		vrt.Observe("panic", first, second, ptxt)
	}
	vrt.Assert(ok && ok0, "c11.illformed.no-panic")
	if !ok || !ok0 {
		return
	}
	vrt.Observe("verdict", first, second, err == nil)
	// which ill-formed references are errors is the business of C12-C15; here: the
	// verdict does not depend on the iteration order, and the defect-free set compiles
	vrt.Assert((err == nil) == (err0 == nil), "c11.illformed.same-verdict-under-every-map-order")
	if first == n {
		vrt.Assert(err == nil, "c11.illformed.defect-free-set-compiles")
	}
}
