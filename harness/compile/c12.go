package compile

// C12 — uses, refine and augment expand to the equivalent inline definition.
//
// A usage SHAPE is rendered twice: with grouping / uses / refine / augment statements,
// and expanded by the harness (the shape is expanded, not YANG text).  Both must compile
// to the same verdict and the same canonical dump.

import (
	"strconv"

	"github.com/sdcio/yang-parser/vrt"
)

// VerifH_C12_Uses
func VerifH_C12_Uses() {
	where0 := vrt.Choice("grouping-defined-in", 3) // 0 the using module, 1 another module, 2 a submodule of the using module
	cross := where0 == 1
	inSub := where0 == 2
	nested := vrt.Bool("nested-uses")
	where := vrt.Choice("used-in", 4)    // 0 top level, 1 container, 2 list, 3 case
	refine := vrt.Choice("refine", 5)    // 0 none, 1 default, 2 mandatory, 3 config false, 4 presence on the grouping's container
	augment := vrt.Choice("augment-inside-uses", 4) // 0 none, 1 a leaf, 2 a container holding a uses, 3 a uses directly
	guard := vrt.Choice("uses-property", 3) // 0 none, 1 if-feature, 2 status deprecated
	clash := vrt.Bool("clashing-sibling")
	if vrt.Param("lite", 0) == 1 {
		// quick tier: half of the placements and three of the five refinements
		vrt.Assume(where == 1 || where == 3)
		vrt.Assume(refine == 0 || refine == 1 || refine == 3)
	}

	// a grouping node guarded by a feature of the DEFINING module that is spelled like the
	// feature of the using module on the uses ("if-feature f" means lib:f there, app:f here)
	gguard := cross && vrt.Bool("grouping-leaf-guarded-by-like-named-feature")
	// ---- the grouping bodies
	inner := "leaf il { type string; } "
	outerOwn := "leaf ol { type string; } container gc { leaf gcl { type string; } } "
	if gguard {
		outerOwn = "leaf ol { if-feature f; type string; } container gc { leaf gcl { type string; } } "
	}
	gtext := "grouping inner2 { leaf i2 { type string; } } grouping inner { " + inner + "} grouping outer { " + outerOwn
	if nested {
		gtext += "uses inner; "
	}
	gtext += "} "

	pfx := ""
	if cross {
		pfx = "lib:"
	}
	// ---- uses statement as written
	uses := "uses " + pfx + "outer {"
	guardText := ""
	switch guard {
	case 1:
		guardText = " if-feature f;"
	case 2:
		guardText = " status deprecated;"
	}
	uses += guardText
	switch refine {
	case 1:
		uses += " refine ol { default 'dv'; }"
	case 2:
		uses += " refine ol { mandatory true; }"
	case 3:
		uses += " refine ol { config false; }"
	case 4:
		uses += " refine gc { presence 'p'; }"
	}
	switch augment {
	case 1:
		uses += " augment gc { leaf al { type string; } }"
	case 2:
		uses += " augment gc { container an { leaf al2 { type string; } uses " + pfx + "inner2; } }"
	case 3:
		uses += " augment gc { uses " + pfx + "inner2; }"
	}
	uses += " }"

	// ---- the same, expanded in place
	ol := "leaf ol { type string;" + guardText
	if gguard {
		ol = "leaf ol { if-feature lib:f; type string;" + guardText
	}
	switch refine {
	case 1:
		ol += " default 'dv';"
	case 2:
		ol += " mandatory true;"
	case 3:
		ol += " config false;"
	}
	ol += " } "
	gc := "container gc {" + guardText
	if refine == 4 {
		gc += " presence 'p';"
	}
	gc += " leaf gcl { type string; } "
	switch augment {
	case 1:
		gc += "leaf al { type string; } "
	case 2:
		gc += "container an { leaf al2 { type string; } leaf i2 { type string; } } "
	case 3:
		gc += "leaf i2 { type string; } "
	}
	gc += "} "
	expanded := ol + gc
	if nested {
		expanded += "leaf il { type string;" + guardText + " } "
	}
	sibling := ""
	if clash {
		sibling = "leaf ol { type int8; } "
	}

	wrap := func(body string) string {
		switch where {
		case 1:
			return "container box { " + body + sibling + "} "
		case 2:
			return "list box { key k; leaf k { type string; } " + body + sibling + "} "
		case 3:
			return "choice ch { case ca { " + body + sibling + "} } "
		}
		return body + sibling
	}
	appHead := "module app { namespace 'urn:app'; prefix app; "
	if cross {
		appHead += "import lib { prefix lib; } "
	}
	inlinedHead := appHead + "feature f; "
	if inSub {
		appHead += "include sub; "
	}
	appHead += "feature f; "
	written := map[string]string{}
	inlined := map[string]string{}
	switch {
	case cross:
		written["lib"] = "module lib { namespace 'urn:lib'; prefix lib; feature f; " + gtext + "}"
		inlined["lib"] = written["lib"]
		written["app"] = appHead + wrap(uses) + "}"
	case inSub:
		written["sub"] = "submodule sub { belongs-to app { prefix app; } " + gtext + "}"
		written["app"] = appHead + wrap(uses) + "}"
	default:
		written["app"] = appHead + gtext + wrap(uses) + "}"
	}
	inlined["app"] = inlinedHead + wrap(expanded) + "}"

	vrt.Reach("c12.uses.where" + strconv.Itoa(where))
	feats := featSet{"app:f": true}
	olPresent := true
	if gguard {
		appF, libF := vrt.Bool("app:f"), vrt.Bool("lib:f")
		feats = featSet{"app:f": appF, "lib:f": libF}
		olPresent = libF && (guard != 1 || appF)
	}
	got, err1 := compileTexts(written, feats, nil)
	want, err2 := compileTexts(inlined, feats, nil)
	if err1 != nil {
		vrt.Observe("written-error", err1.Error())
	}
	if err2 != nil {
		vrt.Observe("inlined-error", err2.Error())
	}
	vrt.Assert((err1 == nil) == (err2 == nil), "c12.uses.same-verdict-as-inlined")
	vrt.Assert((err1 != nil) == (clash && olPresent), "c12.uses.name-clash-rejected")
	if err1 != nil || err2 != nil {
		return
	}
	g, w := dumpModelSet(got), dumpModelSet(want)
	vrt.Observe("dump", g)
	vrt.Assert(g == w, "c12.uses.same-schema-as-inlined")
}

// VerifH_C12_Augment: nodes added by an augment from another module belong to the
// augmenting module; if-feature / status on the augment apply to every node it adds; a
// name clash with an existing sibling is rejected.
func VerifH_C12_Augment() {
	guard := vrt.Choice("augment-property", 3) // none, if-feature g, status deprecated
	enabled := vrt.Bool("g-enabled")
	clash := vrt.Bool("clash")
	target := vrt.Choice("target", 2) // 0: a container, 1: a case of a choice
	guardText := ""
	switch guard {
	case 1:
		guardText = " if-feature g;"
	case 2:
		guardText = " status deprecated;"
	}
	newLeaf := "x"
	if clash {
		newLeaf = "a"
	}
	path := "/app:box"
	if target == 1 {
		path = "/app:box/app:ch/app:ca"
	}
	texts := map[string]string{
		"app": "module app { namespace 'urn:app'; prefix app; container box { leaf a { type string; } choice ch { case ca { leaf a2 { type string; } } } } }",
		"aug": "module aug { namespace 'urn:aug'; prefix aug; import app { prefix app; } feature g; " +
			"augment " + path + " {" + guardText + " leaf " + newLeaf + " { type string; } container y { leaf z { type string; } } } }",
	}
	vrt.Reach("c12.augment")
	ms, err := compileTexts(texts, featSet{"aug:g": enabled}, nil)
	if err != nil {
		vrt.Observe("error", err.Error())
	}
	absent := guard == 1 && !enabled
	vrt.Assert((err != nil) == (clash && !absent), "c12.augment.name-clash-rejected")
	if err != nil {
		return
	}
	box := ms.Child("box")
	x, y := box.Child(newLeaf), box.Child("y")
	if absent {
		vrt.Assert(y == nil, "c12.augment.if-feature-applies-to-every-added-node")
		return
	}
	vrt.Assert(x != nil && y != nil, "c12.augment.nodes-added")
	if x == nil || y == nil {
		return
	}
	vrt.Assert(x.Namespace() == "urn:aug" && x.Module() == "aug", "c12.augment.leaf-belongs-to-augmenting-module")
	vrt.Assert(y.Namespace() == "urn:aug" && y.Child("z").Namespace() == "urn:aug", "c12.augment.subtree-belongs-to-augmenting-module")
	vrt.Assert(box.Child("a").Namespace() == "urn:app", "c12.augment.existing-nodes-untouched")
	wantStatus := 0
	if guard == 2 {
		wantStatus = 1
	}
	vrt.Assert(int(x.Status()) == wantStatus && int(y.Status()) == wantStatus && int(y.Child("z").Status()) == wantStatus, "c12.augment.status-applies-to-every-added-node")
}

// VerifH_C12_WhenNesting: a `when` (on an augment inside a uses, on the uses, or on a
// node of the grouping) keeps its meaning — expression and evaluation context — when the
// construct that carries it is wrapped in one or two more levels of grouping.
func VerifH_C12_WhenNesting() {
	placement := vrt.Choice("when-on", 3) // 0 augment inside the uses, 1 the uses, 2 a node inside the grouping
	depth := 1 + vrt.Choice("extra-levels", 2)
	cross := vrt.Bool("groupings-in-other-module")
	inner := "grouping inner { container gc { leaf gcl { type string; } } leaf x { type string; } "
	if placement == 2 {
		inner += "leaf w { when \"../x = 'a'\"; type string; } "
	}
	inner += "} "
	pfx := ""
	if cross {
		pfx = "lib:"
	}
	core := "uses " + pfx + "inner"
	switch placement {
	case 0:
		core += " { augment gc { when \"../x = 'a'\"; leaf al { type string; } } }"
	case 1:
		core += " { when \"x = 'a'\"; }"
	default:
		core += ";"
	}
	// wrap the core in `depth` levels of groupings (defined where the inner grouping is)
	wrappers := ""
	use := core
	for i := 1; i <= depth; i++ {
		name := "wrap" + strconv.Itoa(i)
		wrappers += "grouping " + name + " { " + use + " } "
		use = "uses " + pfx + name + ";"
	}
	head := "module app { namespace 'urn:app'; prefix app; "
	if cross {
		head += "import lib { prefix lib; } "
	}
	direct, nested := map[string]string{}, map[string]string{}
	if cross {
		// inside lib the groupings refer to each other without prefix
		libCore := "uses inner"
		switch placement {
		case 0:
			libCore += " { augment gc { when \"../x = 'a'\"; leaf al { type string; } } }"
		case 1:
			libCore += " { when \"x = 'a'\"; }"
		default:
			libCore += ";"
		}
		libWrap, libUse := "", libCore
		for i := 1; i <= depth; i++ {
			name := "wrap" + strconv.Itoa(i)
			libWrap += "grouping " + name + " { " + libUse + " } "
			libUse = "uses " + name + ";"
		}
		lib := "module lib { namespace 'urn:lib'; prefix lib; " + inner + libWrap + "}"
		direct["lib"], nested["lib"] = lib, lib
		direct["app"] = head + "container c { " + core + " } }"
		nested["app"] = head + "container c { " + use + " } }"
	} else {
		direct["app"] = head + inner + "container c { " + core + " } }"
		nested["app"] = head + inner + wrappers + "container c { " + use + " } }"
	}
	vrt.Reach("c12.whennesting")
	d, e1 := compileTexts(direct, featSet{}, nil)
	n, e2 := compileTexts(nested, featSet{}, nil)
	if e1 != nil || e2 != nil {
		if e1 != nil {
			vrt.Observe("direct-error", e1.Error())
		}
		if e2 != nil {
			vrt.Observe("nested-error", e2.Error())
		}
		vrt.Assert(false, "c12.whennesting.both-compile")
		return
	}
	dd, nd := dumpModelSet(d), dumpModelSet(n)
	vrt.Observe("dump", dd)
	vrt.Assert(dd == nd, "c12.whennesting.same-schema-at-every-nesting-depth")
}
