package compile

// C20 — schema filters prune top-down and change nothing else.

import (
	"encoding/xml"
	"sort"
	"strconv"
	"strings"

	"github.com/sdcio/yang-parser/schema"
	"github.com/sdcio/yang-parser/vrt"
)

// dumpPruned: the canonical dump of an (unfiltered) schema with every node failing f
// removed together with its subtree.
func dumpPruned(ms schema.ModelSet, f SchemaFilter) string {
	var sb strings.Builder
	var mods []string
	for name := range ms.Modules() {
		mods = append(mods, name)
	}
	sort.Strings(mods)
	for _, m := range mods {
		mod := ms.Modules()[m]
		fs := append([]string(nil), mod.Features()...)
		sort.Strings(fs)
		sb.WriteString("module " + m + " ns=" + mod.Namespace() + " features=" + strings.Join(fs, ",") + "\n")
	}
	hidden := map[string]bool{}
	hiddenByChoices(ms, f, false, hidden)
	kids := ms.Children()
	sort.Slice(kids, func(a, b int) bool { return kids[a].Name() < kids[b].Name() })
	for _, k := range kids {
		if (f == nil || f(k)) && !hidden[k.Name()] {
			dumpNodePruned(k, "", &sb, f)
		}
	}
	return sb.String()
}


// hiddenByChoices: names of the data nodes that sit (transparently) under a choice or
// case that fails the filter — they disappear with it.
func hiddenByChoices(n schema.Node, f SchemaFilter, parentPruned bool, out map[string]bool) {
	for _, c := range n.Choices() {
		switch c.(type) {
		case schema.Choice, schema.Case:
			pruned := parentPruned || (f != nil && !f(c))
			if pruned {
				for _, k := range c.Children() {
					out[k.Name()] = true
				}
			}
			hiddenByChoices(c, f, pruned, out)
		}
	}
}

func dumpNodePruned(n schema.Node, indent string, sb *strings.Builder, f SchemaFilter) {
	// the node's own line: same text as dumpNode prints (first line)
	var one strings.Builder
	dumpNode(n, indent, &one)
	first := one.String()
	if k := strings.IndexByte(first, '\n'); k >= 0 {
		first = first[:k+1]
	}
	sb.WriteString(first)
	var chs []schema.Node
	chs = append(chs, n.Choices()...)
	sort.Slice(chs, func(a, b int) bool { return kindText(chs[a])+chs[a].Name() < kindText(chs[b])+chs[b].Name() })
	for _, c := range chs {
		switch c.(type) {
		case schema.Choice, schema.Case:
			if f == nil || f(c) {
				dumpNodePruned(c, indent+"  ~", sb, f)
			}
		}
	}
	if _, isChoice := n.(schema.Choice); isChoice {
		return
	}
	if _, isCase := n.(schema.Case); isCase {
		return
	}
	hidden := map[string]bool{}
	hiddenByChoices(n, f, false, hidden)
	kids := n.Children()
	sort.Slice(kids, func(a, b int) bool { return kids[a].Name() < kids[b].Name() })
	for _, k := range kids {
		if (f == nil || f(k)) && !hidden[k.Name()] {
			dumpNodePruned(k, indent+"  ", sb, f)
		}
	}
}

func cf(name string, parentState bool) (string, bool) {
	if parentState {
		return "", true
	}
	if vrt.Bool("state." + name) {
		return " config false;", true
	}
	return "", false
}

var c20Filters = []struct {
	name string
	f    SchemaFilter
}{
	{"IsConfig", IsConfig}, {"IsState", IsState}, {"IsOpd", IsOpd},
	{"Include(IsConfig,IsState)", IsConfigOrState()}, {"Exclude(IsState)", Exclude(IsState)},
	{"IncludeState(true)", IncludeState(true)}, {"IncludeState(false)", IncludeState(false)},
	{"Exclude(IsConfig)", Exclude(IsConfig)}, {"Include(IsOpd,IsState)", Include(IsOpd, IsState)},
}

// VerifH_C20_Filters
func VerifH_C20_Filters() {
	lite := vrt.Param("lite", 0) == 1
	aT, aS := cf("a", false)
	a1T, _ := cf("a1", aS)
	a2T := "" // a second leaf beside a1: fixed in the lite variant
	if !lite {
		a2T, _ = cf("a2", aS)
	}
	a3T, a3S := cf("a3", aS)
	a31T, _ := cf("a31", a3S)
	a4T := ""
	if !lite {
		a4T, _ = cf("a4", aS)
	}
	lT, lS := cf("l", false)
	vT, _ := cf("v", lS)
	kT, _ := cf("k", lS) // (this compiler accepts a state key in a configuration list)
	tT, _ := cf("t", false)
	chT, chS := "", false
	if !lite {
		chT, chS = cf("ch", false)
	}
	xT, _ := cf("x", chS)
	yT, _ := cf("y", chS)
	text := "module m { namespace 'urn:m'; prefix m; " +
		"container a {" + aT + " leaf a1 { type string;" + a1T + " } leaf a2 { type string;" + a2T + " } " +
		"container a3 {" + a3T + " leaf a31 { type string;" + a31T + " } } leaf a4 { type string;" + a4T + " } } " +
		"list l { key k; unique \"v\";" + lT + " leaf k { type string;" + kT + " } leaf v { type string;" + vT + " } } " +
		"leaf t { type string;" + tT + " } " +
		"choice ch {" + chT + " default ca; case ca { leaf x { type string;" + xT + " } } case cb { leaf y { type string;" + yT + " } } } }"
	fi := vrt.Choice("filter", len(c20Filters))
	flt := c20Filters[fi]
	vrt.Reach("c20.filter." + strconv.Itoa(fi))
	plain, err0 := compileTexts(map[string]string{"m": text}, featSet{}, nil)
	if err0 != nil {
		vrt.Observe("unfiltered-error", text, err0.Error())
		vrt.Assert(false, "c20.unfiltered-compiles")
		return
	}
	filtered, err := compileTexts(map[string]string{"m": text}, featSet{}, flt.f)
	if err != nil {
		vrt.Observe("filtered-error", text, flt.name, err.Error())
	}
	vrt.Assert(err == nil, "c20.filtered-compiles")
	if err != nil {
		return
	}
	got := dumpModelSet(filtered)
	want := dumpPruned(plain, flt.f)
	vrt.Observe("filter", flt.name)
	vrt.Observe("got", got)
	vrt.Assert(got == want, "c20.filtered-equals-pruned-unfiltered")
}

// VerifH_C20_Combinators: truth tables of the filter predicates and combinators over
// the five node classes a filter can meet: a configuration node, a state node, and the
// three operational-command node kinds (command, option, argument), which are neither.
func VerifH_C20_Combinators() {
	kind := vrt.Choice("node", 5) // 0 config, 1 state, 2 opd command, 3 opd option, 4 opd argument
	text := "module m { namespace 'urn:m'; prefix m; leaf t { type string; } leaf s { type string; config false; } }"
	ms, err := compileTexts(map[string]string{"m": text}, featSet{}, nil)
	if err != nil {
		vrt.Assert(false, "c20.comb.compiles")
		return
	}
	var n schema.Node
	str := schema.NewString(xml.Name{Local: "string"}, nil, nil, nil, "", false)
	switch kind {
	case 0:
		n = ms.Child("t")
	case 1:
		n = ms.Child("s")
	case 2:
		n, err = schema.NewOpdCommand("c", "urn:m", "m", "", "", "", false, false, false, false, false, schema.Current, nil)
	case 3:
		n, err = schema.NewOpdOption("o", "urn:m", "m", "", "", "", "", false, false, false, false, false, false, str, schema.Current, nil)
	default:
		n, err = schema.NewOpdArgument("a", "urn:m", "m", "", "", "", "", false, false, false, false, false, false, str, schema.Current, nil)
	}
	if err != nil || n == nil {
		vrt.Assert(false, "c20.comb.node-built")
		return
	}
	cfg, state, opd := kind == 0, kind == 1, kind >= 2
	vrt.Reach("c20.combinators")
	vrt.Assert(IsConfig(n) == cfg, "c20.comb.IsConfig")
	vrt.Assert(IsState(n) == state, "c20.comb.IsState")
	vrt.Assert(IsOpd(n) == opd, "c20.comb.IsOpd")
	vrt.Assert(Include(IsConfig, IsState)(n) == (cfg || state), "c20.comb.Include")
	vrt.Assert(IsConfigOrState()(n) == (cfg || state), "c20.comb.IsConfigOrState")
	vrt.Assert(Include(IsOpd, IsState)(n) == (opd || state), "c20.comb.Include-opd-state")
	vrt.Assert(Include()(n) == false, "c20.comb.Include-empty")
	vrt.Assert(Exclude(IsState)(n) == !state, "c20.comb.Exclude")
	vrt.Assert(Exclude(IsConfig, IsOpd)(n) == state, "c20.comb.Exclude-two")
	vrt.Assert(Exclude()(n), "c20.comb.Exclude-empty")
	// "state included" means state only; "state not included" means everything but state
	vrt.Assert(IncludeState(true)(n) == state, "c20.comb.IncludeState-true")
	vrt.Assert(IncludeState(false)(n) == !state, "c20.comb.IncludeState-false")
	vrt.Assert(Include(IsConfig, IncludeState(false))(n) == !state, "c20.comb.config-schema-filter")
	vrt.Assert(Exclude(IncludeState(false))(n) == state, "c20.comb.Exclude-of-IncludeState")
	vrt.Assert(Include(nil, IsConfig)(n) == cfg, "c20.comb.Include-nil-tolerated")
}
