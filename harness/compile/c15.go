package compile

// C15 — embedded XPath is checked at compile time in the right prefix scope.

import (
	"strconv"
	"strings"

	"github.com/sdcio/yang-parser/schema"
	"github.com/sdcio/yang-parser/vrt"
)

// VerifH_C15_Scope
func VerifH_C15_Scope() {
	placement := vrt.Choice("placement", 4)
	exprKind := vrt.Choice("expr", 4)   // 0 valid with prefix p, 1 syntactically invalid, 2 unknown prefix q, 3 the own prefix of the module the statement is written in
	uImport := vrt.Choice("u.import", 3) // what module U imports under prefix p: 0 Y, 1 X, 2 nothing
	var expr string
	switch exprKind {
	case 0:
		expr = "../p:xa = 'v'"
	case 1:
		expr = "../p:xa = "
	case 2:
		expr = "../q:zz = 'v'"
	}
	pathExpr := "/p:xa"
	switch exprKind {
	case 1:
		pathExpr = "/p:xa["
	case 2:
		pathExpr = "/q:zz"
	}
	uImp := ""
	switch uImport {
	case 0:
		uImp = "import y { prefix p; } "
	case 1:
		uImp = "import x { prefix p; } "
	}
	dBody, uBody := "", ""
	textualModule := "d"
	if placement == 1 || placement == 2 {
		textualModule = "u"
	}
	if exprKind == 3 {
		expr = "../" + textualModule + ":xa = 'v'"
		pathExpr = "/" + textualModule + ":xa"
	}
	switch placement {
	case 0: // must inside a grouping of D, used from U
		dBody = "grouping g { leaf gl { type string; must \"" + expr + "\"; } }"
		uBody = "container c { uses d:g; }"
	case 1: // when written in U on a uses of D's grouping
		dBody = "grouping g { leaf gl { type string; } }"
		uBody = "container c { uses d:g { when \"" + expr + "\"; } }"
		textualModule = "u"
	case 2: // must written directly in U
		dBody = "grouping g { leaf gl { type string; } }"
		uBody = "container c { leaf gl { type string; must \"" + expr + "\"; } }"
		textualModule = "u"
	case 3: // leafref path inside a typedef of D, used from U
		dBody = "typedef lr { type leafref { path \"" + pathExpr + "\"; } }"
		uBody = "container c { leaf gl { type d:lr; } }"
	}
	texts := map[string]string{
		"x": "module x { namespace 'urn:x'; prefix x; leaf xa { type string; } }",
		"y": "module y { namespace 'urn:y'; prefix y; leaf ya { type string; } }",
		"d": "module d { namespace 'urn:d'; prefix d; import x { prefix p; } " + dBody + " }",
		"u": "module u { namespace 'urn:u'; prefix u; import d { prefix d; } " + uImp + uBody + " }",
	}
	// what does prefix p (or q) mean where the statement is written?
	pKnown := true
	pNs := "urn:x"
	if textualModule == "u" {
		switch uImport {
		case 0:
			pNs = "urn:y"
		case 2:
			pKnown = false
		}
	}
	ok := exprKind == 0 && pKnown
	if exprKind == 3 {
		ok, pNs = true, "urn:"+textualModule
	}
	vrt.Reach("c15.scope.placement" + strconv.Itoa(placement))
	ms, err := compileTexts(texts, featSet{}, nil)
	if err != nil {
		vrt.Observe("verdict", placement, exprKind, uImport, err.Error())
	} else {
		vrt.Observe("verdict", placement, exprKind, uImport, "ok")
	}
	vrt.Assert((err == nil) == ok, "c15.scope.verdict")
	if err != nil {
		if !ok {
			// the error identifies the statement: it quotes the expression (the location it
			// prints may be that of the node a uses-level when was propagated to)
			shown := expr
			if placement == 3 {
				shown = pathExpr
			}
			vrt.Assert(strings.Contains(err.Error(), shown), "c15.scope.error-quotes-expression")
		}
		return
	}
	gl := ms.Child("c").Child("gl")
	var listing, src string
	switch placement {
	case 0, 2:
		m := gl.Musts()
		vrt.Assert(len(m) == 1, "c15.scope.must-present")
		if len(m) != 1 {
			return
		}
		listing, src = m[0].Mach.PrintMachine(), m[0].Mach.GetExpr()
	case 1:
		w := gl.Whens()
		vrt.Assert(len(w) == 1, "c15.scope.when-present")
		if len(w) != 1 {
			return
		}
		listing, src = w[0].Mach.PrintMachine(), w[0].Mach.GetExpr()
	case 3:
		lr, isLr := gl.(schema.Leaf).Type().(schema.Leafref)
		vrt.Assert(isLr, "c15.scope.leafref-type")
		if !isLr {
			return
		}
		listing, src = lr.Mach().PrintMachine(), lr.Mach().GetExpr()
		expr = pathExpr
	}
	vrt.Observe("listing", listing)
	vrt.Assert(src == expr, "c15.scope.expression-text-kept")
	vrt.Assert(strings.Contains(listing, pNs), "c15.scope.prefix-resolved-in-textual-module")
	other := "urn:y"
	switch pNs {
	case "urn:y":
		other = "urn:x"
	case "urn:d":
		other = "urn:u"
	case "urn:u":
		other = "urn:d"
	}
	vrt.Assert(!strings.Contains(listing, other), "c15.scope.prefix-not-resolved-in-using-module")
}


// VerifH_C15_SamePathText: two leafref paths with byte-identical text, one inside D's
// grouping (prefix p bound by D's imports) and one written in U (prefix p bound by U's
// imports, or not at all); each must be resolved where it is written, in either order.
func VerifH_C15_SamePathText() {
	uImport := vrt.Choice("u.import", 3) // prefix p in U: 0 -> Y, 1 -> X, 2 unbound
	usesFirst := vrt.Bool("uses-first")
	viaTypedef := vrt.Bool("typedef")
	uImp := ""
	switch uImport {
	case 0:
		uImp = "import y { prefix p; } "
	case 1:
		uImp = "import x { prefix p; } "
	}
	dBody := "grouping g { leaf gl { type leafref { path \"/p:a\"; } } }"
	if viaTypedef {
		dBody = "typedef lr { type leafref { path \"/p:a\"; } } grouping g { leaf gl { type lr; } }"
	}
	own := "leaf ul { type leafref { path \"/p:a\"; } } "
	used := "container c { uses d:g; } "
	uBody := own + used
	if usesFirst {
		uBody = used + own
	}
	texts := map[string]string{
		"x": "module x { namespace 'urn:x'; prefix x; leaf xa { type string; } }",
		"y": "module y { namespace 'urn:y'; prefix y; leaf ya { type string; } }",
		"d": "module d { namespace 'urn:d'; prefix d; import x { prefix p; } " + dBody + " }",
		"u": "module u { namespace 'urn:u'; prefix u; import d { prefix d; } " + uImp + uBody + " }",
	}
	ok := uImport != 2
	vrt.Reach("c15.samepath")
	ms, err := compileTexts(texts, featSet{}, nil)
	if err != nil {
		vrt.Observe("verdict", uImport, usesFirst, err.Error())
	} else {
		vrt.Observe("verdict", uImport, usesFirst, "ok")
	}
	vrt.Assert((err == nil) == ok, "c15.samepath.verdict")
	if err != nil {
		return
	}
	wantU := "urn:y"
	if uImport == 1 {
		wantU = "urn:x"
	}
	check := func(n schema.Node, wantNs, id string) {
		lr, isLr := n.(schema.Leaf).Type().(schema.Leafref)
		vrt.Assert(isLr, "c15.samepath.leafref-type")
		if !isLr {
			return
		}
		listing := lr.Mach().PrintMachine()
		vrt.Observe("listing", id, listing)
		other := "urn:y"
		if wantNs == "urn:y" {
			other = "urn:x"
		}
		vrt.Assert(strings.Contains(listing, wantNs) && !strings.Contains(listing, other), "c15.samepath."+id+"-resolved-where-written")
	}
	check(ms.Child("c").Child("gl"), "urn:x", "grouping-path")
	check(ms.Child("ul"), wantU, "own-path")
}

// VerifH_C15_TwoMusts: ONE node carrying two must statements written in different
// modules - the grouping's own (module D, prefix p bound to X) and a second one added by
// a refine in the using module U or by a deviation in a third module V, where the same
// prefix p is bound to Y, to X, or not at all.  Each expression is resolved through the
// imports of the module it is written in.
func VerifH_C15_TwoMusts() {
	via := vrt.Choice("second-must-via", 2) // 0 refine in U, 1 deviate add in V
	bind := vrt.Choice("p-bound-to", 3)     // where the second must is written: 0 Y, 1 X, 2 unbound
	imp := ""
	switch bind {
	case 0:
		imp = "import y { prefix p; } "
	case 1:
		imp = "import x { prefix p; } "
	}
	second := "../p:a = 'w'"
	texts := map[string]string{
		"x": "module x { namespace 'urn:x'; prefix x; leaf xa { type string; } }",
		"y": "module y { namespace 'urn:y'; prefix y; leaf ya { type string; } }",
		"d": "module d { namespace 'urn:d'; prefix d; import x { prefix p; } grouping g { leaf gl { type string; must \"../p:a = 'v'\"; } } }",
	}
	if via == 0 {
		texts["u"] = "module u { namespace 'urn:u'; prefix u; import d { prefix d; } " + imp +
			"container c { uses d:g { refine gl { must \"" + second + "\"; } } } }"
	} else {
		texts["u"] = "module u { namespace 'urn:u'; prefix u; import d { prefix d; } container c { uses d:g; } }"
		texts["v"] = "module v { namespace 'urn:v'; prefix v; import u { prefix u; } " + imp +
			"deviation /u:c/u:gl { deviate add { must \"" + second + "\"; } } }"
	}
	ok := bind != 2
	vrt.Reach("c15.twomusts.via" + strconv.Itoa(via))
	ms, err := compileTexts(texts, featSet{}, nil)
	if err != nil {
		vrt.Observe("verdict", via, bind, err.Error())
	} else {
		vrt.Observe("verdict", via, bind, "ok")
	}
	vrt.Assert((err == nil) == ok, "c15.twomusts.verdict")
	if err != nil {
		return
	}
	musts := ms.Child("c").Child("gl").Musts()
	vrt.Assert(len(musts) == 2, "c15.twomusts.both-present")
	if len(musts) != 2 {
		return
	}
	wantSecond := "urn:y"
	if bind == 1 {
		wantSecond = "urn:x"
	}
	seen := 0
	for _, m := range musts {
		listing := m.Mach.PrintMachine()
		vrt.Observe("listing", m.Mach.GetExpr(), listing)
		want := "urn:x"
		if m.Mach.GetExpr() == second {
			want = wantSecond
			seen++
		}
		other := "urn:y"
		if want == "urn:y" {
			other = "urn:x"
		}
		vrt.Assert(strings.Contains(listing, want) && !strings.Contains(listing, other), "c15.twomusts.each-resolved-where-written")
	}
	vrt.Assert(seen == 1, "c15.twomusts.both-present")
}
