package compile

// C16 on COMPILED types (the clauses that need the compiler: implicitly anchored
// patterns incl. pattern lists along a typedef chain and inside unions; identityref
// values from the transitively derived set across modules; enumeration names).
// Patterns and identities are concrete members of a family, the probed value is a
// string of symbolic bytes over the family's alphabet.  The pattern oracle is Go's
// regexp with the XSD anchoring made explicit: ^(?:P)$.

import (
	"regexp"
	"strconv"

	"github.com/sdcio/yang-parser/schema"
	"github.com/sdcio/yang-parser/vrt"
)

var c16Patterns = []string{
	"ab|cd", "(ab)|(cd)", "(ab|cd)", "(a)(b)", "a|b|", "(ab)|cd", "ab|(cd)", "a*", "(a|b)*c", "[a-c]d?", "a.c", "(a)|(b)|(c)",
}

func c16Value(tag string, maxLen int, alphabet string) string {
	n := vrt.Choice(tag+".len", maxLen+1)
	bs := vrt.Bytes(tag, n)
	for _, c := range bs {
		in := false
		for k := 0; k < len(alphabet); k++ {
			in = vrt.Or(in, c == alphabet[k])
		}
		vrt.Assume(in)
	}
	return string(bs)
}

func c16Match(pat, v string) bool {
	return regexp.MustCompile("^(?:" + pat + ")$").MatchString(v)
}

// VerifH_C16_Patterns
func VerifH_C16_Patterns() {
	L := vrt.Param("L", 3)
	p1 := c16Patterns[vrt.Choice("p1", len(c16Patterns))]
	placement := vrt.Choice("placement", 4)
	var text string
	pats := []string{p1}
	switch placement {
	case 0: // directly on the leaf
		text = "leaf x { type string { pattern '" + p1 + "'; } }"
	case 1: // two patterns on one type: both must match
		p2 := c16Patterns[vrt.Choice("p2", len(c16Patterns))]
		pats = append(pats, p2)
		text = "leaf x { type string { pattern '" + p1 + "'; pattern '" + p2 + "'; } }"
	case 2: // typedef chain: the derived type adds a pattern
		p2 := c16Patterns[vrt.Choice("p2", len(c16Patterns))]
		pats = append(pats, p2)
		text = "typedef t { type string { pattern '" + p1 + "'; } } leaf x { type t { pattern '" + p2 + "'; } }"
	default: // union member
		text = "leaf x { type union { type uint8; type string { pattern '" + p1 + "'; } } }"
	}
	v := c16Value("v", L, "abcdx")
	want := true
	for _, p := range pats {
		want = want && c16Match(p, v)
	}
	if placement == 3 && !want {
		// the other union member: uint8 — no value over the alphabet is a number
		want = false
	}
	ms, err := compileTexts(map[string]string{"m": "module m { namespace 'urn:m'; prefix m; " + text + " }"}, featSet{}, nil)
	vrt.Reach("c16.patterns.placement" + strconv.Itoa(placement))
	if err != nil {
		vrt.Observe("compile-error", text, err.Error())
		vrt.Assert(false, "c16.patterns.compiles")
		return
	}
	leaf := ms.Child("x").(schema.Leaf)
	verr := leaf.Type().Validate(c13Ctx{}, []string{"x"}, v)
	vrt.Observe("verdict", text, v, verr == nil)
	vrt.Assert((verr == nil) == want, "c16.patterns.verdict")
}

// VerifH_C16_Identities: identityref accepts exactly the identities transitively derived
// from the base (not the base itself), spelled with the module prefix iff foreign.
func VerifH_C16_Identities() {
	m1 := "module m1 { namespace 'urn:m1'; prefix m1; identity base; identity a { base base; } identity aa { base a; } identity other; " +
		"leaf x { type identityref { base base; } } leaf e { type enumeration { enum a; enum bb; enum c { value 7; } } } }"
	m2 := "module m2 { namespace 'urn:m2'; prefix m2; import m1 { prefix p; } identity b { base p:base; } identity bb { base b; } identity aa { base p:other; } identity a { base p:base; } " +
		"leaf y { type identityref { base p:base; } } }"
	vrt.MapOrder(vrt.Choice("map-order-policy", 6)) // the closure is collected while ranging over maps
	ms, err := compileTexts(map[string]string{"m1": m1, "m2": m2}, featSet{}, nil)
	vrt.MapOrder(0)
	if err != nil {
		vrt.Observe("compile-error", err.Error())
		vrt.Assert(false, "c16.identities.compiles")
		return
	}
	names := []string{"base", "a", "aa", "b", "bb", "other", "m1:a", "m1:aa", "m2:b", "m2:bb", "m2:aa", "m1:base", "m2:a", ""}
	// m1:a and m2:a share their local name and are BOTH derived from the base: each leaf
	// accepts both, the own-module one bare, the foreign one prefixed
	var v string
	if vrt.Bool("symbolic") {
		v = c16Value("v", vrt.Param("L", 3), "abm12:")
	} else {
		v = names[vrt.Choice("name", len(names))]
	}
	leafName := []string{"x", "y", "e"}[vrt.Choice("leaf", 3)]
	var want bool
	switch leafName {
	case "x": // in m1: own identities bare, foreign ones prefixed with their module name
		want = v == "a" || v == "aa" || v == "m2:b" || v == "m2:bb" || v == "m2:a"
	case "y": // in m2
		want = v == "m1:a" || v == "m1:aa" || v == "b" || v == "bb" || v == "a"
	default:
		want = v == "a" || v == "bb" || v == "c"
	}
	vrt.Reach("c16.identities." + leafName)
	leaf := ms.Child(leafName).(schema.Leaf)
	verr := leaf.Type().Validate(c13Ctx{}, []string{leafName}, v)
	vrt.Observe("verdict", leafName, v, want)
	agrees := (verr == nil) == want
	if !vrt.Symbolic() {
		// native confirmation: the identity closure is collected while ranging over Go
		// maps; a verdict that depends on that order shows when the compile is repeated
		for r := 0; r < 40 && agrees; r++ {
			again, e := compileTexts(map[string]string{"m1": m1, "m2": m2}, featSet{}, nil)
			if e != nil {
				agrees = false
				break
			}
			ve := again.Child(leafName).(schema.Leaf).Type().Validate(c13Ctx{}, []string{leafName}, v)
			agrees = (ve == nil) == want
		}
	}
	vrt.Assert(agrees, "c16.identities.verdict")
}
