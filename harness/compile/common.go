package compile

// Shared helpers of the compile-level harnesses (C11-C15, C20).

import (
	"sort"
	"strconv"
	"strings"

	"github.com/sdcio/yang-parser/parse"
	"github.com/sdcio/yang-parser/schema"
)

// featSet is a FeaturesChecker over an explicit map.
type featSet map[string]bool

func (f featSet) Status(name string) FeatureStatus {
	if f[name] {
		return ENABLED
	}
	return DISABLED
}

func parseAll(texts map[string]string) (map[string]*parse.Tree, error) {
	trees := map[string]*parse.Tree{}
	// deterministic order of parsing (names sorted)
	var names []string
	for n := range texts {
		names = append(names, n)
	}
	sort.Strings(names)
	for _, n := range names {
		t, err := parse.Parse(n, texts[n], nil)
		if err != nil {
			return nil, err
		}
		trees[n] = t
	}
	return trees, nil
}

func compileTexts(texts map[string]string, feats FeaturesChecker, filter SchemaFilter) (schema.ModelSet, error) {
	trees, err := parseAll(texts)
	if err != nil {
		return nil, err
	}
	return CompileParseTrees(nil, trees, feats, false, filter)
}

// ---- canonical dump

func typeText(t schema.Type) string {
	if t == nil {
		return "-"
	}
	s := t.Name().Local
	if d, ok := t.Default(); ok {
		s += " default=" + strconv.Quote(d)
	}
	switch v := t.(type) {
	case schema.Integer:
		s += " int" + strconv.Itoa(int(v.BitWidth())) + "["
		for _, r := range v.Rbs() {
			s += strconv.FormatInt(r.Start, 10) + ".." + strconv.FormatInt(r.End, 10) + " "
		}
		s += "]"
	case schema.Uinteger:
		s += " uint" + strconv.Itoa(int(v.BitWidth())) + "["
		for _, r := range v.Rbs() {
			s += strconv.FormatUint(r.Start, 10) + ".." + strconv.FormatUint(r.End, 10) + " "
		}
		s += "]"
	case schema.String:
		s += " string"
		if l := v.Len(); l != nil {
			s += " len["
			for _, lb := range l.Lbs {
				s += strconv.FormatUint(lb.Start, 10) + ".." + strconv.FormatUint(lb.End, 10) + " "
			}
			s += "]"
		}
		s += " pats=" + strconv.Itoa(len(v.Pats()))
	case schema.Enumeration:
		s += " enum{"
		for _, e := range v.Enums() {
			s += e.Val + " "
		}
		s += "}"
	case schema.Identityref:
		s += " identityref{"
		var ids []string
		for _, i := range v.Identities() {
			ids = append(ids, i.Module+"|"+i.Val)
		}
		sort.Strings(ids)
		s += strings.Join(ids, " ") + "}"
	case schema.Union:
		s += " union("
		for _, m := range v.Typs() {
			s += typeText(m) + "; "
		}
		s += ")"
	case schema.Boolean:
		s += " boolean"
	case schema.Empty:
		s += " empty"
	case schema.Leafref:
		s += " leafref " + strconv.Quote(v.Mach().GetExpr())
	}
	return s
}

func kindText(n schema.Node) string {
	switch n.(type) {
	case schema.Container:
		return "container"
	case schema.List:
		return "list"
	case schema.ListEntry:
		return "listentry"
	case schema.Leaf:
		return "leaf"
	case schema.LeafList:
		return "leaf-list"
	case schema.Choice:
		return "choice"
	case schema.Case:
		return "case"
	case schema.OpdCommand:
		return "opd:command"
	case schema.OpdOption:
		return "opd:option"
	case schema.OpdArgument:
		return "opd:argument"
	case schema.Tree:
		return "tree"
	}
	return "node"
}

func dumpNode(n schema.Node, indent string, sb *strings.Builder) {
	sb.WriteString(indent + kindText(n) + " " + n.Name() + " ns=" + n.Namespace() + " mod=" + n.Module() +
		" config=" + strconv.FormatBool(n.Config()) + " status=" + n.Status().String() +
		" mand=" + strconv.FormatBool(n.Mandatory()))
	switch v := n.(type) {
	case schema.Container:
		sb.WriteString(" presence=" + strconv.FormatBool(v.Presence()))
	case schema.List:
		sb.WriteString(" keys=" + strings.Join(v.Keys(), ",") + " min=" + strconv.FormatUint(uint64(v.Limit().Min), 10) + " max=" + strconv.FormatUint(uint64(v.Limit().Max), 10) + " ordby=" + v.OrdBy() + " uniques=" + strconv.Itoa(len(v.Uniques())))
	case schema.LeafList:
		sb.WriteString(" min=" + strconv.FormatUint(uint64(v.Limit().Min), 10) + " max=" + strconv.FormatUint(uint64(v.Limit().Max), 10) + " type=" + typeText(v.Type()))
	case schema.Leaf:
		sb.WriteString(" type=" + typeText(v.Type()))
		if d, ok := v.Default(); ok {
			sb.WriteString(" leafdefault=" + strconv.Quote(d))
		}
	case schema.Choice:
		sb.WriteString(" defcase=" + v.DefaultCase())
	}
	for _, w := range n.Whens() {
		sb.WriteString(" when{" + w.Mach.GetExpr() + " asparent=" + strconv.FormatBool(w.RunAsParent) + "}")
	}
	for _, m := range n.Musts() {
		sb.WriteString(" must{" + m.Mach.GetExpr() + "}")
	}
	sb.WriteString("\n")
	// choices (with their cases) first, then data children, both sorted by name
	var chs []schema.Node
	chs = append(chs, n.Choices()...)
	sort.Slice(chs, func(a, b int) bool { return kindText(chs[a])+chs[a].Name() < kindText(chs[b])+chs[b].Name() })
	for _, c := range chs {
		switch c.(type) {
		case schema.Choice, schema.Case:
			dumpNode(c, indent+"  ~", sb)
		}
	}
	if _, isChoice := n.(schema.Choice); isChoice {
		return
	}
	if _, isCase := n.(schema.Case); isCase {
		return
	}
	kids := n.Children()
	sort.Slice(kids, func(a, b int) bool { return kids[a].Name() < kids[b].Name() })
	for _, k := range kids {
		dumpNode(k, indent+"  ", sb)
	}
}

func dumpModelSet(ms schema.ModelSet) string {
	var sb strings.Builder
	var mods []string
	for name := range ms.Modules() {
		mods = append(mods, name)
	}
	sort.Strings(mods)
	for _, m := range mods {
		mod := ms.Modules()[m]
		f := append([]string(nil), mod.Features()...)
		sort.Strings(f)
		sb.WriteString("module " + m + " ns=" + mod.Namespace() + " features=" + strings.Join(f, ",") + "\n")
	}
	kids := ms.Children()
	sort.Slice(kids, func(a, b int) bool { return kids[a].Name() < kids[b].Name() })
	for _, k := range kids {
		dumpNode(k, "", &sb)
	}
	return sb.String()
}
