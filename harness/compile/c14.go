package compile

// C14 — config, status, if-feature and deviations shape the tree as specified.

import (
	"strconv"

	"github.com/sdcio/yang-parser/schema"
	"github.com/sdcio/yang-parser/vrt"
)

var c14Guards = []string{"", "f4", "base:hw", "f3", "f2", "f1"}

func guardText(g int) string {
	if g == 0 {
		return ""
	}
	return " if-feature " + c14Guards[g] + ";"
}

// VerifH_C14_Features: node presence as a function of a symbolic enabled-feature set.
func VerifH_C14_Features() {
	// enabled set: one symbolic bit per feature
	en := featSet{}
	names := []string{"m:f1", "m:f2", "m:f3", "m:f4", "b:hw", "b:hw2", "m:d1", "m:f2b"}
	bit := map[string]bool{}
	for _, n := range names {
		bit[n] = vrt.Bool("en." + n)
		en[n] = bit[n]
	}
	// effective status through the dependency graph
	eff := map[string]bool{}
	eff["b:hw"] = bit["b:hw"]
	eff["b:hw2"] = vrt.And(bit["b:hw2"], eff["b:hw"])
	eff["m:f1"] = bit["m:f1"]
	eff["m:f2"] = vrt.And(bit["m:f2"], eff["m:f1"])
	eff["m:f3"] = vrt.And(bit["m:f3"], eff["b:hw2"])
	eff["m:f4"] = vrt.And(bit["m:f4"], vrt.And(eff["m:f2"], eff["m:f3"]))
	effOf := func(g int) bool {
		switch c14Guards[g] {
		case "":
			return true
		case "base:hw":
			return eff["b:hw"]
		}
		return eff["m:"+c14Guards[g]]
	}
	G := vrt.Param("G", len(c14Guards))
	g1, g2, g3 := vrt.Choice("g.c", G), vrt.Choice("g.l1", G), vrt.Choice("g.t", G)
	diamond := vrt.Param("diamond", 0) == 1
	dtext := ""
	if diamond {
		// d1 depends on f2 and f2b which both depend on f1: a diamond, not a cycle
		dtext = " feature f2b { if-feature f1; } feature d1 { if-feature f2; if-feature f2b; }"
	}
	texts := map[string]string{
		"b": "module b { namespace 'urn:b'; prefix b; feature hw; feature hw2 { if-feature hw; } }",
		"m": "module m { namespace 'urn:m'; prefix m; import b { prefix base; } " +
			"feature f1; feature f2 { if-feature f1; } feature f3 { if-feature base:hw2; } feature f4 { if-feature f2; if-feature f3; }" + dtext +
			" container c {" + guardText(g1) + " leaf l1 {" + guardText(g2) + " type string; } leaf l2 { type string; } } " +
			"leaf t {" + guardText(g3) + " type string; } }",
	}
	vrt.Class("C14-feature-dependency-diamond-reported-as-cycle", diamond)
	vrt.Reach("c14.features")
	ms, err := compileTexts(texts, en, nil)
	if err != nil {
		vrt.Observe("error", err.Error())
	}
	vrt.Assert(err == nil, "c14.features.compiles")
	if err != nil {
		return
	}
	c := ms.Child("c")
	vrt.Assert(vrt.Iff(c != nil, effOf(g1)), "c14.features.container-present-iff-feature-effective")
	if c != nil {
		vrt.Assert(vrt.Iff(c.Child("l1") != nil, effOf(g2)), "c14.features.leaf-present-iff-feature-effective")
		vrt.Assert(c.Child("l2") != nil, "c14.features.unguarded-leaf-present")
	}
	vrt.Assert(vrt.Iff(ms.Child("t") != nil, effOf(g3)), "c14.features.top-leaf-present-iff-feature-effective")
}

var c14Status = []string{"", " status current;", " status deprecated;", " status obsolete;"}

func statusRank(k int, inherited int) int {
	if k == 0 {
		return inherited
	}
	return k - 1
}

// VerifH_C14_StatusConfig: status may only weaken downwards, a definition may not use a
// more obsolete one of its own module; config false is inherited, config true beneath
// it is rejected.
func VerifH_C14_StatusConfig() {
	sc, sl, st, sg := vrt.Choice("s.container", 4), vrt.Choice("s.leaf", 4), vrt.Choice("s.typedef", 4), vrt.Choice("s.grouping", 4)
	cfgC, cfgL := vrt.Choice("cfg.container", 3), vrt.Choice("cfg.leaf", 3) // none, true, false
	cfgText := []string{"", " config true;", " config false;"}
	text := "module m { namespace 'urn:m'; prefix m; " +
		"typedef td { type string;" + c14Status[st] + " } " +
		"grouping g {" + c14Status[sg] + " leaf gl { type string; } } " +
		"container c {" + c14Status[sc] + cfgText[cfgC] + " leaf l {" + c14Status[sl] + cfgText[cfgL] + " type td; } uses g; } }"
	rc := statusRank(sc, 0)
	rl := statusRank(sl, rc)
	rt := statusRank(st, 0)
	rg := statusRank(sg, 0)
	ok := true
	if rl < rc {
		ok = false // child more current than its parent
	}
	if rt > rl {
		ok = false // leaf uses a more obsolete typedef
	}
	if rg > rc {
		ok = false // container uses a more obsolete grouping
	}
	containerCfg := cfgC != 2
	if !containerCfg && cfgL == 1 {
		ok = false // config true under config false
	}
	vrt.Reach("c14.statusconfig")
	ms, err := compileTexts(map[string]string{"m": text}, featSet{}, nil)
	if err != nil {
		vrt.Observe("verdict", text, err.Error())
	} else {
		vrt.Observe("verdict", text, "ok")
	}
	vrt.Assert((err == nil) == ok, "c14.statusconfig.verdict")
	if err != nil {
		return
	}
	c := ms.Child("c")
	l := c.Child("l")
	vrt.Assert(c.Config() == containerCfg, "c14.config.container")
	vrt.Assert(l.Config() == (containerCfg && cfgL != 2), "c14.config.leaf-inherits")
	vrt.Assert(c.Child("gl").Config() == containerCfg, "c14.config.grouping-leaf-inherits")
	vrt.Assert(int(l.Status()) == rl && int(c.Status()) == rc, "c14.status.effective")
}

// VerifH_C14_Deviations: a deviation gives the same schema as editing the target.
func VerifH_C14_Deviations() {
	base := func(leafBody string, present bool) string {
		t := "module m { namespace 'urn:m'; prefix m; container c { leaf keep { type string; } "
		if present {
			t += "leaf x { " + leafBody + " } "
		}
		return t + "} }"
	}
	type dev struct {
		body   string // substatements of the leaf before deviating
		dtext  string // deviate statement(s)
		edited string // leaf body after the edit ("" with present=false for not-supported)
		gone   bool
		bad    bool // the RFC forbids this deviation
	}
	devs := []dev{
		{"type string;", "deviate not-supported;", "", true, false},
		{"type string;", "deviate add { default 'dd'; }", "type string; default 'dd';", false, false},
		{"type string; default 'a';", "deviate replace { default 'b'; }", "type string; default 'b';", false, false},
		{"type string; default 'a';", "deviate delete { default 'a'; }", "type string;", false, false},
		{"type string;", "deviate replace { type uint8; }", "type uint8;", false, false},
		{"type string;", "deviate add { units 'u'; }", "type string; units 'u';", false, false},
		{"type string; config false;", "deviate replace { config true; }", "type string; config true;", false, false},
		{"type string;", "deviate add { mandatory true; }", "type string; mandatory true;", false, false},
		// forbidden by RFC 6020 7.18.3.2
		{"type string; default 'a';", "deviate add { default 'b'; }", "", false, true},
		{"type string;", "deviate replace { default 'b'; }", "", false, true},
		{"type string;", "deviate delete { default 'a'; }", "", false, true},
		{"type string;", "deviate not-supported; deviate add { default 'a'; }", "", false, true},
		// not-supported must stand alone, wherever it is written
		{"type string;", "deviate add { default 'a'; } deviate not-supported;", "", false, true},
		{"type string; default 'a';", "deviate replace { default 'b'; } deviate not-supported;", "", false, true},
		{"type string; default 'a';", "deviate delete { default 'a'; } deviate not-supported;", "", false, true},
		{"type string;", "deviate add { units 'u'; } deviate not-supported; deviate replace { type uint8; }", "", false, true},
		// more properties, several deviates in one deviation
		{"type string; units 'u';", "deviate delete { units 'u'; }", "type string;", false, false},
		{"type string; units 'u';", "deviate replace { units 'v'; }", "type string; units 'v';", false, false},
		{"type string; mandatory true;", "deviate replace { mandatory false; }", "type string; mandatory false;", false, false},
		{"type string;", "deviate add { must 'true()'; }", "type string; must 'true()';", false, false},
		{"type string; must 'true()';", "deviate delete { must 'true()'; }", "type string;", false, false},
		{"type string;", "deviate add { units 'u'; } deviate replace { type uint8; }", "type uint8; units 'u';", false, false},
		{"type string; default 'a';", "deviate delete { default 'a'; } deviate add { units 'u'; }", "type string; units 'u';", false, false},
		// forbidden: adding what exists, replacing / deleting what does not
		{"type string; units 'u';", "deviate add { units 'v'; }", "", false, true},
		{"type string;", "deviate replace { units 'v'; }", "", false, true},
		{"type string;", "deviate delete { units 'u'; }", "", false, true},
		{"type string; units 'u';", "deviate delete { units 'other'; }", "", false, true},
		// a property that may occur several times: the one named is deleted / added
		{"type string; must 'true()'; must 'false()';", "deviate delete { must 'false()'; }", "type string; must 'true()';", false, false},
		{"type string; must 'true()'; must 'false()';", "deviate delete { must 'true()'; }", "type string; must 'false()';", false, false},
		{"type string; must 'true()'; must 'false()';", "deviate delete { must 'true()'; must 'false()'; }", "type string;", false, false},
		{"type string; must 'true()';", "deviate add { must 'false()'; }", "type string; must 'true()'; must 'false()';", false, false},
		{"type string; must 'true()';", "deviate delete { must 'false()'; }", "", false, true},
	}
	k := vrt.Choice("deviation", len(devs))
	d := devs[k]
	texts := map[string]string{
		"m": base(d.body, true),
		"d": "module d { namespace 'urn:d'; prefix d; import m { prefix m; } deviation /m:c/m:x { " + d.dtext + " } }",
	}
	vrt.Reach("c14.deviation." + strconv.Itoa(k))
	got, err := compileTexts(texts, featSet{}, nil)
	if err != nil {
		vrt.Observe("verdict", d.dtext, err.Error())
	} else {
		vrt.Observe("verdict", d.dtext, "ok")
	}
	vrt.Assert((err == nil) == !d.bad, "c14.deviation.verdict")
	if err != nil || d.bad {
		return
	}
	want, err2 := compileTexts(map[string]string{"m": base(d.edited, !d.gone)}, featSet{}, nil)
	if err2 != nil {
		vrt.Assert(false, "c14.deviation.edited-source-compiles")
		return
	}
	// compare the dumps of module m's tree (the deviating module adds only a module line)
	var g, w []schema.Node
	g, w = got.Children(), want.Children()
	vrt.Assert(len(g) == len(w), "c14.deviation.same-top-level")
	gd, wd := dumpModelSet(got), dumpModelSet(want)
	// strip the extra "module d" line from the deviated dump
	gd = stripLine(gd, "module d ")
	vrt.Observe("dump", gd)
	vrt.Assert(gd == wd, "c14.deviation.equals-edited-source")
}

func stripLine(s, prefix string) string {
	out := ""
	for len(s) > 0 {
		k := 0
		for k < len(s) && s[k] != '\n' {
			k++
		}
		line := s[:k]
		if k < len(s) {
			k++
		}
		s = s[k:]
		if len(line) >= len(prefix) && line[:len(prefix)] == prefix {
			continue
		}
		out += line + "\n"
	}
	return out
}

// VerifH_C14_StatusRefine: a refine is a reference from the uses to a node of a
// grouping of the same module: the refined node (and every node on the refine path)
// must not be more obsolete than the uses (RFC 6020 7.19.2), and status may only weaken
// downwards once the grouping is instantiated.
func VerifH_C14_StatusRefine() {
	sc := vrt.Choice("s.container", 3)  // none, current, deprecated
	sgl := vrt.Choice("s.gl", 4)        // status written on grouping leaf gl
	sgc := vrt.Choice("s.gc", 4)        // ... on grouping container gc
	sgcl := vrt.Choice("s.gcl", 4)      // ... on leaf gcl inside gc
	target := vrt.Choice("refine", 4)   // 0 none, 1 gl, 2 gc, 3 gc/gcl
	refine := ""
	switch target {
	case 1:
		refine = " refine gl { description 'r'; }"
	case 2:
		refine = " refine gc { description 'r'; }"
	case 3:
		refine = " refine gc/gcl { description 'r'; }"
	}
	text := "module m { namespace 'urn:m'; prefix m; " +
		"grouping g { leaf gl {" + c14Status[sgl] + " type string; } container gc {" + c14Status[sgc] + " leaf gcl {" + c14Status[sgcl] + " type string; } } } " +
		"container c {" + c14Status[sc] + " uses g {" + refine + " } } }"
	rc := statusRank(sc, 0)
	rgl := statusRank(sgl, rc)
	rgc := statusRank(sgc, rc)
	rgcl := statusRank(sgcl, rgc)
	ok := true
	// status only weakens downwards
	if rgl < rc || rgc < rc || rgcl < rgc {
		ok = false
	}
	// the refine references its target path from the uses (effective status of c)
	switch target {
	case 1:
		if rgl > rc {
			ok = false
		}
	case 2:
		if rgc > rc {
			ok = false
		}
	case 3:
		if rgc > rc || rgcl > rc {
			ok = false
		}
	}
	vrt.Reach("c14.statusrefine")
	_, err := compileTexts(map[string]string{"m": text}, featSet{}, nil)
	if err != nil {
		vrt.Observe("verdict", text, err.Error())
	} else {
		vrt.Observe("verdict", text, "ok")
	}
	vrt.Assert((err == nil) == ok, "c14.statusrefine.verdict")
}
