package compile

// C13 — derived types narrow their base and inherit its default.

import (
	"strconv"

	"github.com/sdcio/yang-parser/schema"
	"github.com/sdcio/yang-parser/vrt"
)

type c13Ctx struct{}

func (c13Ctx) ErrorHelpText() []string    { return nil }
func (c13Ctx) AllowIncompletePaths() bool { return false }

// a bound of the derived range: a symbolic digit, or the keywords min / max
type c13Bound struct {
	text string
	kw   int // 0 number, 1 min, 2 max
	val  int64
}

func genBound(tag string) c13Bound {
	switch vrt.Choice(tag+".kw", 3) {
	case 1:
		return c13Bound{text: "min", kw: 1}
	case 2:
		return c13Bound{text: "max", kw: 2}
	}
	d := vrt.Byte(tag + ".d")
	vrt.Assume(vrt.And(d >= '0', d <= '9'))
	return c13Bound{text: string([]byte{d}), val: int64(d - '0')}
}

var c13Bases = []struct {
	text  string
	parts [][2]int64
}{
	{"1..3 | 5..8", [][2]int64{{1, 3}, {5, 8}}},
	{"1..3 | 4..8", [][2]int64{{1, 3}, {4, 8}}}, // adjacent parts: contiguous for integers
	{"2..7", [][2]int64{{2, 7}}},
	{"0..1 | 3..4 | 6..9", [][2]int64{{0, 1}, {3, 4}, {6, 9}}},
}

// VerifH_C13_Range: typedef base { type <int kind> { range BASE; } }  typedef d { type base { range "D1..D2"; } }
func VerifH_C13_Range() {
	kinds := []string{"int32", "uint8", "int64"}
	kind := kinds[vrt.Choice("kind", vrt.Param("kinds", 3))]
	base := c13Bases[vrt.Choice("base", len(c13Bases))]
	b1, b2 := genBound("d1"), genBound("d2")
	bmin, bmax := base.parts[0][0], base.parts[len(base.parts)-1][1]
	lo, hi := b1.val, b2.val
	switch b1.kw {
	case 1:
		lo = bmin
	case 2:
		lo = bmax
	}
	switch b2.kw {
	case 1:
		hi = bmin
	case 2:
		hi = bmax
	}
	// reference: lo <= hi and [lo,hi] lies inside one maximal run of the base
	inside := false
	runLo := base.parts[0][0]
	for i, p := range base.parts {
		if i > 0 && base.parts[i-1][1]+1 != p[0] {
			runLo = p[0]
		}
		runHi := p[1]
		// extend the run over following adjacent parts
		for j := i + 1; j < len(base.parts) && base.parts[j-1][1]+1 == base.parts[j][0]; j++ {
			runHi = base.parts[j][1]
		}
		inside = vrt.Or(inside, vrt.And(lo >= runLo, hi <= runHi))
	}
	valid := vrt.And(lo <= hi, inside)
	// leaf default (optional), a symbolic digit
	hasDef := vrt.Bool("hasdef")
	defText := ""
	var defVal int64
	if hasDef {
		d := vrt.Byte("def")
		vrt.Assume(vrt.And(d >= '0', d <= '9'))
		defText = " default " + string([]byte{d}) + ";"
		defVal = int64(d - '0')
		valid = vrt.And(valid, vrt.And(defVal >= lo, defVal <= hi))
	}
	text := "module m { namespace 'urn:m'; prefix m; " +
		"typedef base { type " + kind + " { range '" + base.text + "'; } } " +
		"typedef d { type base { range '" + b1.text + ".." + b2.text + "'; } } " +
		"leaf x { type d;" + defText + " } }"
	// known finding: 'max' as a lower bound and 'min' as an upper bound are not recognised
	vrt.Class("C13-max-as-lower-or-min-as-upper-bound-rejected", b1.kw == 2 || b2.kw == 1)
	vrt.Reach("c13.range." + kind)
	ms, err := compileTexts(map[string]string{"m": text}, featSet{}, nil)
	if err != nil {
		vrt.Observe("verdict", text, err.Error())
	} else {
		vrt.Observe("verdict", text, "ok")
	}
	vrt.Assert(vrt.Iff(err == nil, valid), "c13.range.compile-verdict")
	if err != nil {
		return
	}
	leaf := ms.Child("x").(schema.Leaf)
	// every one-digit probe value: accepted iff inside the derived range
	p := vrt.Byte("probe")
	vrt.Assume(vrt.And(p >= '0', p <= '9'))
	pv := int64(p - '0')
	verr := leaf.Type().Validate(c13Ctx{}, []string{"x"}, string([]byte{p}))
	vrt.Assert(vrt.Iff(verr == nil, vrt.And(pv >= lo, pv <= hi)), "c13.range.derived-type-accepts-exactly-the-narrowed-range")
	d, ok := leaf.Default()
	vrt.Assert(ok == hasDef, "c13.range.default-presence")
	if ok && hasDef {
		vrt.Assert(d == strconv.FormatInt(defVal, 10), "c13.range.default-value")
	}
}

// VerifH_C13_Defaults: default inheritance along a chain of typedefs, nearest wins; a
// default rejected by the final type is a compile error.
func VerifH_C13_Defaults() {
	// chain: t1 (range 1..8, default D1?) <- t2 (range 2..6, default D2?) <- leaf (default DL?)
	var defs [3]string
	var vals [3]int64
	var has [3]bool
	names := []string{"t1", "t2", "leaf"}
	for i := range names {
		has[i] = vrt.Bool(names[i] + ".hasdef")
		if has[i] {
			d := vrt.Byte(names[i] + ".def")
			vrt.Assume(vrt.And(d >= '0', d <= '9'))
			defs[i] = " default " + string([]byte{d}) + ";"
			vals[i] = int64(d - '0')
		}
	}
	text := "module m { namespace 'urn:m'; prefix m; " +
		"typedef t1 { type uint8 { range '1..8'; }" + defs[0] + " } " +
		"typedef t2 { type t1 { range '2..6'; }" + defs[1] + " } " +
		"leaf x { type t2;" + defs[2] + " } }"
	// validity: each default must satisfy the type it is attached to
	valid := true
	if has[0] {
		valid = vrt.And(valid, vrt.And(vals[0] >= 1, vals[0] <= 8))
	}
	if has[1] {
		valid = vrt.And(valid, vrt.And(vals[1] >= 2, vals[1] <= 6))
	}
	if has[2] {
		valid = vrt.And(valid, vrt.And(vals[2] >= 2, vals[2] <= 6))
	}
	// t2 inherits t1's default when it gives none: it must then satisfy t2's narrower range
	// (RFC 6020 7.3.4), whether or not the leaf overrides it later
	if has[0] && !has[1] {
		valid = vrt.And(valid, vrt.And(vals[0] >= 2, vals[0] <= 6))
	}
	vrt.Reach("c13.defaults")
	ms, err := compileTexts(map[string]string{"m": text}, featSet{}, nil)
	if err != nil {
		vrt.Observe("verdict", text, err.Error())
	} else {
		vrt.Observe("verdict", text, "ok")
	}
	// t1's default when t2 overrides it need not satisfy t2: only t1
	vrt.Assert(vrt.Iff(err == nil, valid), "c13.defaults.compile-verdict")
	if err != nil {
		return
	}
	leaf := ms.Child("x").(schema.Leaf)
	d, ok := leaf.Default()
	want, wantOK := int64(0), false
	for i := 2; i >= 0; i-- {
		if has[i] {
			want, wantOK = vals[i], true
			break
		}
	}
	vrt.Assert(ok == wantOK, "c13.defaults.presence")
	if ok && wantOK {
		vrt.Assert(d == strconv.FormatInt(want, 10), "c13.defaults.nearest-definition-wins")
	}
}

// VerifH_C13_Kinds: a restriction kind that does not apply to the base type is refused.
func VerifH_C13_Kinds() {
	bases := []string{"int8", "uint16", "string", "boolean", "decimal64 { fraction-digits 1; }", "enumeration { enum a; }", "empty"}
	restr := []string{"range '1..2';", "length '1..2';", "pattern 'a';"}
	bi, ri := vrt.Choice("base", len(bases)), vrt.Choice("restriction", len(restr))
	b := bases[bi]
	baseDef := "type " + b
	if b[len(b)-1] != '}' {
		baseDef += ";"
	}
	text := "module m { namespace 'urn:m'; prefix m; typedef t { " + baseDef + " } leaf x { type t { " + restr[ri] + " } } }"
	// RFC 6020 §9: range applies to numeric types, length and pattern to string (length also to binary)
	numeric := bi == 0 || bi == 1 || bi == 4
	ok := (ri == 0 && numeric) || (ri != 0 && bi == 2)
	vrt.Reach("c13.kinds")
	_, err := compileTexts(map[string]string{"m": text}, featSet{}, nil)
	if err != nil {
		vrt.Observe("verdict", text, err.Error())
	} else {
		vrt.Observe("verdict", text, "ok")
	}
	vrt.Assert((err == nil) == ok, "c13.kinds.verdict")
}

// VerifH_C13_Parts: a derived restriction with TWO parts "A..B | C..D" (symbolic digits)
// over a multi-part base — parts must be ordered, disjoint and each inside one run of
// the base; as range over int32 or as length over string.
func VerifH_C13_Parts() {
	isLength := vrt.Param("length", 0) == 1
	base := c13Bases[vrt.Choice("base", vrt.Param("bases", len(c13Bases)))]
	digit := func(tag string) (string, int64) {
		d := vrt.Byte(tag)
		vrt.Assume(vrt.And(d >= '0', d <= '9'))
		return string([]byte{d}), int64(d - '0')
	}
	at, a := digit("a")
	bt, b := digit("b")
	ct, c := digit("c")
	dt, d := digit("d")
	insideRun := func(lo, hi int64) bool {
		in := false
		runLo := base.parts[0][0]
		for i, p := range base.parts {
			if i > 0 && base.parts[i-1][1]+1 != p[0] {
				runLo = p[0]
			}
			runHi := p[1]
			for j := i + 1; j < len(base.parts) && base.parts[j-1][1]+1 == base.parts[j][0]; j++ {
				runHi = base.parts[j][1]
			}
			in = vrt.Or(in, vrt.And(lo >= runLo, hi <= runHi))
		}
		return in
	}
	valid := vrt.And(vrt.And(a <= b, c <= d), vrt.And(b < c, vrt.And(insideRun(a, b), insideRun(c, d))))
	kw, typ := "range", "int32"
	if isLength {
		kw, typ = "length", "string"
	}
	text := "module m { namespace 'urn:m'; prefix m; " +
		"typedef base { type " + typ + " { " + kw + " '" + base.text + "'; } } " +
		"typedef d { type base { " + kw + " '" + at + ".." + bt + " | " + ct + ".." + dt + "'; } } " +
		"leaf x { type d; } }"
	vrt.Reach("c13.parts." + kw)
	ms, err := compileTexts(map[string]string{"m": text}, featSet{}, nil)
	if err != nil {
		vrt.Observe("verdict", text, err.Error())
	} else {
		vrt.Observe("verdict", text, "ok")
	}
	vrt.Assert(vrt.Iff(err == nil, valid), "c13.parts.compile-verdict")
	if err != nil {
		return
	}
	leaf := ms.Child("x").(schema.Leaf)
	var probe string
	var pv int64
	if isLength {
		// a length is a concrete number of characters: solver-chosen among 0..9 (quick: 4 of them)
		p := vrt.Choice("probelen", 10)
		if vrt.Param("probes", 10) < 10 {
			vrt.Assume(p == 0 || p == 3 || p == 6 || p == 8)
		}
		probe, pv = "xxxxxxxxx"[:p], int64(p)
	} else {
		pb := vrt.Byte("probe")
		vrt.Assume(vrt.And(pb >= '0', pb <= '9'))
		probe, pv = string([]byte{pb}), int64(pb-'0')
	}
	verr := leaf.Type().Validate(c13Ctx{}, []string{"x"}, probe)
	want := vrt.Or(vrt.And(pv >= a, pv <= b), vrt.And(pv >= c, pv <= d))
	vrt.Assert(vrt.Iff(verr == nil, want), "c13.parts.derived-type-accepts-exactly-the-narrowed-parts")
}

// VerifH_C13_PatternDefaults: string chain t1 <- t2 <- leaf; each level optionally adds
// a pattern and optionally a default.  The nearest default wins and must be accepted
// by the type as narrowed AT EVERY LEVEL that sees it (pattern-only levels included).
func VerifH_C13_PatternDefaults() {
	pats := []string{"", "[a-c]+", "[0-9]+"}
	defs := []string{"", "abc", "12"}
	var p, d [3]string
	for i := 0; i < 3; i++ {
		p[i] = pats[vrt.Choice("pattern"+strconv.Itoa(i), len(pats))]
		d[i] = defs[vrt.Choice("default"+strconv.Itoa(i), len(defs))]
	}
	pat := func(s string) string {
		if s == "" {
			return ""
		}
		return " pattern '" + s + "';"
	}
	def := func(s string) string {
		if s == "" {
			return ""
		}
		return " default '" + s + "';"
	}
	text := "module m { namespace 'urn:m'; prefix m; " +
		"typedef t1 { type string {" + pat(p[0]) + " }" + def(d[0]) + " } " +
		"typedef t2 { type t1 {" + pat(p[1]) + " }" + def(d[1]) + " } " +
		"leaf x { type t2 {" + pat(p[2]) + " }" + def(d[2]) + " } }"
	matches := func(v string, upto int) bool {
		for i := 0; i <= upto; i++ {
			if p[i] != "" && !c16Match(p[i], v) {
				return false
			}
		}
		return true
	}
	valid := true
	eff := ""
	for level := 0; level < 3; level++ {
		if d[level] != "" {
			eff = d[level]
		}
		if eff != "" && !matches(eff, level) {
			valid = false
		}
	}
	vrt.Reach("c13.patterndefaults")
	ms, err := compileTexts(map[string]string{"m": text}, featSet{}, nil)
	if err != nil {
		vrt.Observe("verdict", text, err.Error())
	} else {
		vrt.Observe("verdict", text, "ok")
	}
	vrt.Assert((err == nil) == valid, "c13.patterndefaults.compile-verdict")
	if err != nil {
		return
	}
	leaf := ms.Child("x").(schema.Leaf)
	got, has := leaf.Default()
	vrt.Assert(has == (eff != "") && (!has || got == eff), "c13.patterndefaults.nearest-default")
	if has {
		vrt.Assert(leaf.Type().Validate(c13Ctx{}, []string{"x"}, got) == nil, "c13.patterndefaults.default-is-accepted-by-the-final-type")
	}
}

// VerifH_C13_SharedText: the SAME restriction text with a keyword bound ("2..max",
// "min..4") derived from two typedefs with different bounds in one compile; each
// derived type must resolve the keyword against its own base.
func VerifH_C13_SharedText() {
	isLength := vrt.Bool("length")
	upper := vrt.Bool("keyword-is-max") // "2..max" or "min..4"
	digit := func(tag string, lo, hi byte) (string, int64) {
		d := vrt.Byte(tag)
		vrt.Assume(vrt.And(d >= lo, d <= hi))
		return string([]byte{d}), int64(d - '0')
	}
	var b1t, b2t string
	var b1, b2 int64
	kw, typ := "range", "int32"
	if isLength {
		kw, typ = "length", "string"
	}
	var base1, base2, derived string
	var lo1, hi1, lo2, hi2 int64
	if upper {
		b1t, b1 = digit("b1", '4', '9')
		b2t, b2 = digit("b2", '4', '9')
		base1, base2, derived = "1.."+b1t, "1.."+b2t, "2..max"
		lo1, hi1, lo2, hi2 = 2, b1, 2, b2
	} else {
		b1t, b1 = digit("b1", '0', '3')
		b2t, b2 = digit("b2", '0', '3')
		base1, base2, derived = b1t+"..8", b2t+"..8", "min..4"
		lo1, hi1, lo2, hi2 = b1, 4, b2, 4
	}
	first, second := "x", "y"
	if vrt.Bool("y-first") {
		first, second = "y", "x"
	}
	leafOf := func(n string) string {
		t := "t1"
		if n == "y" {
			t = "t2"
		}
		return "leaf " + n + " { type " + t + " { " + kw + " '" + derived + "'; } } "
	}
	text := "module m { namespace 'urn:m'; prefix m; " +
		"typedef t1 { type " + typ + " { " + kw + " '" + base1 + "'; } } " +
		"typedef t2 { type " + typ + " { " + kw + " '" + base2 + "'; } } " +
		leafOf(first) + leafOf(second) + "}"
	vrt.Reach("c13.sharedtext." + kw)
	ms, err := compileTexts(map[string]string{"m": text}, featSet{}, nil)
	if err != nil {
		vrt.Observe("verdict", text, err.Error())
	}
	vrt.Assert(err == nil, "c13.sharedtext.compiles")
	if err != nil {
		return
	}
	p := vrt.Choice("probe", 10)
	probe := strconv.Itoa(p)
	if isLength {
		probe = "xxxxxxxxx"[:p]
	}
	pv := int64(p)
	ex := ms.Child("x").(schema.Leaf).Type().Validate(c13Ctx{}, []string{"x"}, probe)
	ey := ms.Child("y").(schema.Leaf).Type().Validate(c13Ctx{}, []string{"y"}, probe)
	vrt.Assert(vrt.Iff(ex == nil, vrt.And(pv >= lo1, pv <= hi1)), "c13.sharedtext.first-base-bounds")
	vrt.Assert(vrt.Iff(ey == nil, vrt.And(pv >= lo2, pv <= hi2)), "c13.sharedtext.second-base-bounds")
}

// VerifH_C13_Scopes: typedefs of the SAME name in scopes that do not enclose one another
// (two sibling containers, a grouping, the top level of an imported module bound to a
// prefix) in one compile.  Each leaf must get the restrictions and the default of the
// typedef visible from where it stands.
func VerifH_C13_Scopes() {
	digit := func(tag string) (string, int64) {
		d := []byte{'3', '5', '8'}[vrt.Choice(tag, 3)]
		return string([]byte{d}), int64(d - '0')
	}
	t1, h1 := digit("hi1")
	t2, h2 := digit("hi2")
	t3, h3 := digit("hi3")
	t4, h4 := digit("hi4")
	def2 := vrt.Bool("second-scope-has-default")
	td := func(hi string, def string) string {
		s := "typedef t { type int32 { range '1.." + hi + "'; } "
		if def != "" {
			s += "default '" + def + "'; "
		}
		return s + "} "
	}
	d2 := ""
	if def2 {
		d2 = "2"
	}
	parts := []string{
		// (this parser enters a statement's typedefs into the scope the statement itself
		// stands in, so like-named typedefs are only accepted two levels apart)
		"container a { container i { " + td(t1, "1") + "leaf x { type t; } } } ",
		"container b { container i { " + td(t2, d2) + "leaf x { type t; } } } ",
		"container c { grouping g { " + td(t3, "") + "leaf x { type t; } } container i { uses g; } } ",
		"container d { container i { leaf x { type q:t; } } } ",
	}
	order := vrt.Choice("scope-order", 4) // rotate the order in which the scopes are written
	body := ""
	for i := 0; i < 4; i++ {
		body += parts[(i+order)%4]
	}
	texts := map[string]string{
		"m": "module m { namespace 'urn:m'; prefix m; import n { prefix q; } " + body + "}",
		"n": "module n { namespace 'urn:n'; prefix n; " + td(t4, "") + "leaf y { type t; } }",
	}
	vrt.Reach("c13.scopes")
	ms, err := compileTexts(texts, featSet{}, nil)
	if err != nil {
		vrt.Observe("verdict", err.Error())
	}
	vrt.Assert(err == nil, "c13.scopes.compiles")
	if err != nil {
		return
	}
	his := []int64{h1, h2, h3, h4}
	for i, cn := range []string{"a", "b", "c", "d"} {
		leaf := ms.Child(cn).Child("i").Child("x").(schema.Leaf)
		got, has := leaf.Default()
		want := map[string]string{"a": "1", "b": d2}[cn]
		vrt.Observe("default", cn, got, has)
		vrt.Assert(has == (want != "") && got == want, "c13.scopes.default-of-the-visible-typedef")
		for p := 0; p < 10; p++ {
			e := leaf.Type().Validate(c13Ctx{}, []string{cn, "i", "x"}, strconv.Itoa(p))
			vrt.Assert((e == nil) == (int64(p) >= 1 && int64(p) <= his[i]), "c13.scopes.bounds-of-the-visible-typedef")
		}
	}
	for p := 0; p < 10; p++ {
		ey := ms.Child("y").(schema.Leaf).Type().Validate(c13Ctx{}, []string{"y"}, strconv.Itoa(p))
		vrt.Assert((ey == nil) == (int64(p) >= 1 && int64(p) <= h4), "c13.scopes.bounds-of-the-visible-typedef")
	}
}
