package expr

// C03 — operator precedence, associativity and whitespace.
//
// A token sequence (operands, binary operators, optional unary minus) is rendered
// (a) as written and (b) fully parenthesised by an independent precedence-climbing
// parenthesiser (XPath 1.0 §3); both must compile to the same program listing and
// evaluate to the same result.  Then one token gap of (a) gets extra white space (a
// symbolic byte from SP/TAB/LF/CR) or, where two tokens cannot glue, loses its blank.

import (
	"strconv"

	"github.com/sdcio/yang-parser/vrt"
	"github.com/sdcio/yang-parser/xpath"
)

var c03Ops = []string{"or", "and", "=", "!=", "<", "<=", ">", ">=", "+", "-", "*", "div", "mod", "|"}
var c03OpSets = [][]int{{0, 1, 2, 3, 4, 5, 6, 7, 8, 9, 10, 11, 12}, {0, 2, 4, 8, 10, 11}, {0, 2, 4, 9, 10, 13}, {0, 1, 2, 3, 4, 5, 6, 7, 8, 9, 10, 11, 12, 13}}
var c03Prec = []int{1, 2, 3, 3, 4, 4, 4, 4, 5, 5, 6, 6, 6, 8}

const c03Union = 13

var c03Operands = [][]string{
	// the first four are the quick tier's choice: an exponent-form number, a literal, a
	// parent step, a function call
	{"1e3"}, {"'s'"}, {".."}, {"not", "(", "b", ")"}, {"a"}, {"(", "3", ")"}, {"b"}, {"a", "/", ".."}, {"2"}, {".5"},
}

type c03Expr struct {
	text string
}

// parenthesise builds the fully parenthesised text of operands[0] op[0] operands[1] ...
// (each operand may carry unary minus signs) by precedence climbing.
func parenthesise(operands []string, ops []int) string {
	pos := 0
	return climbFrom(&pos, operands, ops, 1)
}

// parenthesiseUnion: operands[i] are bare operand texts, neg[i] says whether a unary
// minus is written before operand i.  Union binds tighter than unary minus, so the
// minus written before the first operand of a union chain negates the whole chain.
func parenthesiseUnion(bare []string, neg []bool, ops []int) string {
	var units []string
	var rest []int
	i := 0
	for i < len(bare) {
		chain := bare[i]
		n := neg[i]
		for i < len(ops) && ops[i] == c03Union {
			chain = "(" + chain + " | " + bare[i+1] + ")"
			i++
		}
		if n {
			chain = "(- " + chain + ")"
		}
		units = append(units, chain)
		if i < len(ops) {
			rest = append(rest, ops[i])
		}
		i++
	}
	return parenthesise(units, rest)
}

func climbFrom(pos *int, operands []string, ops []int, minPrec int) string {
	lhs := operands[*pos]
	for *pos < len(ops) && c03Prec[ops[*pos]] >= minPrec {
		op := ops[*pos]
		*pos++
		rhs := climbFrom(pos, operands, ops, c03Prec[op]+1)
		lhs = "(" + lhs + " " + c03Ops[op] + " " + rhs + ")"
	}
	return lhs
}

func join(tokens []string, sep func(gap int) string) string {
	s := ""
	for i, t := range tokens {
		if i > 0 {
			s += sep(i - 1)
		}
		s += t
	}
	return s
}

func isPunctByte(c byte) bool {
	switch c {
	case '(', ')', ',', '[', ']', '|', '=', '/':
		return true
	}
	return false
}

// canDropBlank: the two tokens cannot glue into a different token sequence.
func isNumberTok(t string) bool {
	for i := 0; i < len(t); i++ {
		c := t[i]
		if !(c >= '0' && c <= '9') && c != '.' && c != 'e' && c != 'E' {
			return false
		}
	}
	return t[0] >= '0' && t[0] <= '9' || t[0] == '.'
}

func canDropBlank(l, r string) bool {
	lc, rc := l[len(l)-1], r[0]
	// after a number an operator character starts a new token whatever the spelling of
	// the number (the implementation also lexes exponent forms, see C04)
	if isNumberTok(l) && (rc == '+' || rc == '-' || rc == '*') {
		return true
	}
	if lc == '<' || lc == '>' || lc == '!' {
		return false
	}
	if isPunctByte(lc) && rc != '/' && rc != '=' {
		return true
	}
	if (rc == '(' || rc == ')' || rc == ',' || rc == ']' || rc == '|' || rc == '=' || rc == '!' || rc == '<' || rc == '>') && lc != '/' {
		return true
	}
	return false
}

func c03Run(m *xpath.Machine) (string, bool) {
	t := &mockTree{vals: map[string]xpath.Datum{"a": xpath.NewNumDatum(7), "b": xpath.NewNumDatum(0), "c": xpath.NewLiteralDatum("5")}}
	res := xpath.NewCtxFromCurrent(nil, m, t.root()).Run()
	if e := res.GetError(); e != nil {
		return "error:" + e.Error(), true
	}
	n, _ := res.GetNumResult()
	b, _ := res.GetBoolResult()
	s, _ := res.GetLiteralResult()
	return strconv.FormatFloat(n, 'g', -1, 64) + "|" + strconv.FormatBool(b) + "|" + s + "|" + strconv.FormatBool(res.IsNumber()), true
}

// VerifH_C03_Precedence: n operands, all operator combinations.
func VerifH_C03_Precedence() {
	n := vrt.Param("n", 3)
	mode := vrt.Param("mode", 0)       // 0: precedence/associativity, 1: white space
	kinds := vrt.Param("operands", 6)  // how many operand kinds are in play (<= 6)
	opset := c03OpSets[vrt.Param("opset", 0)]
	var toks []string     // flat token list of the unparenthesised text
	var operands []string // operand texts for the parenthesiser
	var bare []string
	var negs []bool
	var ops []int
	for i := 0; i < n; i++ {
		var o []string
		if kinds <= 1 {
			// fixed operands: a parent step first (operator names and '*' directly after
			// ".." are the delicate case of the XPath 3.7 disambiguation rule)
			o = [][]string{{".."}, {"2"}, {"a", "/", ".."}, {"c"}}[(i+vrt.Param("shift", 0))%4]
		} else {
			o = c03Operands[vrt.Choice("operand"+strconv.Itoa(i), kinds)]
		}
		neg := vrt.Choice("neg"+strconv.Itoa(i), 2)
		if i > 0 && ops[i-1] == c03Union {
			vrt.Assume(neg == 0) // "a | - b" is not an expression: a union operand is a path
		}
		text := join(o, func(int) string { return " " })
		bare = append(bare, text)
		negs = append(negs, neg == 1)
		if neg == 1 {
			toks = append(toks, "-")
			text = "(- " + text + ")"
		}
		toks = append(toks, o...)
		operands = append(operands, text)
		if i+1 < n {
			op := opset[vrt.Choice("op"+strconv.Itoa(i), len(opset))]
			ops = append(ops, op)
			toks = append(toks, c03Ops[op])
		}
	}
	plain := join(toks, func(int) string { return " " })
	paren := parenthesiseUnion(bare, negs, ops)
	_ = operands
	vrt.Reach("c03.precedence")
	m1, e1 := NewExprMachine(plain, nil)
	m2, e2 := NewExprMachine(paren, nil)
	if e1 != nil || e2 != nil {
		vrt.Observe("compile", plain, paren)
		vrt.Assert(false, "c03.both-compile")
		return
	}
	vrt.Observe("texts", plain, paren)
	vrt.Assert(m1.PrintMachine() == m2.PrintMachine(), "c03.same-program-as-parenthesised")
	r1, _ := c03Run(m1)
	r2, _ := c03Run(m2)
	vrt.Assert(r1 == r2, "c03.same-result-as-parenthesised")

	// ---- white space at one gap
	if len(toks) < 2 || mode == 0 {
		return
	}
	g := vrt.Choice("gap", len(toks)-1)
	wsmode := vrt.Choice("wsmode", 2)
	var variant string
	if wsmode == 0 {
		w := vrt.Byte("ws")
		vrt.Assume(vrt.Or(w == ' ', vrt.Or(w == '\t', vrt.Or(w == '\n', w == '\r'))))
		variant = join(toks, func(k int) string {
			if k == g {
				return " " + string([]byte{w})
			}
			return " "
		})
		// also: the blank replaced by that byte alone
		if vrt.Bool("ws.alone") {
			variant = join(toks, func(k int) string {
				if k == g {
					return string([]byte{w})
				}
				return " "
			})
		}
	} else {
		if !canDropBlank(toks[g], toks[g+1]) {
			return
		}
		variant = join(toks, func(k int) string {
			if k == g {
				return ""
			}
			return " "
		})
	}
	vrt.Reach("c03.whitespace.mode" + strconv.Itoa(wsmode))
	m3, e3 := NewExprMachine(variant, nil)
	if e3 != nil {
		vrt.Observe("variant-error", variant, e3.Error())
	}
	vrt.Assert(e3 == nil, "c03.whitespace-variant-compiles")
	if e3 != nil {
		return
	}
	vrt.Assert(m1.PrintMachine() == m3.PrintMachine(), "c03.whitespace-same-program")
	r3, _ := c03Run(m3)
	vrt.Assert(r1 == r3, "c03.whitespace-same-result")
}
