package expr

// Mock data tree shared by the xpath harnesses (C01, C02, C05, C06).

import (
	gocontext "context"
	"errors"
	"sort"
	"strconv"
	"strings"

	sdcpb "github.com/sdcio/sdc-protos/sdcpb"
	"github.com/sdcio/yang-parser/xpath"
)

// mockTree answers navigation requests.  Values are looked up by the name of the last
// path element (C01) or produced by a callback; every request is logged.
type mockTree struct {
	vals   map[string]xpath.Datum
	deflt  xpath.Datum
	log    []string
	calls  int
	failAt int // the failAt-th callback (1-based) fails; 0 = never
	failed bool
	cur    *sdcpb.Path // absolute path of the context node (for FollowLeafRef answers)
	lref   *sdcpb.Path // what FollowLeafRef returns
}

type mockEntry struct {
	t    *mockTree
	path *sdcpb.Path
}

var errInjected = errors.New("injected-data-tree-failure")

func pathText(p *sdcpb.Path) string {
	if p == nil {
		return "<nil>"
	}
	var sb strings.Builder
	if p.IsRootBased {
		sb.WriteString("ABS")
	} else {
		sb.WriteString("REL")
	}
	for _, e := range p.Elem {
		sb.WriteString("/")
		sb.WriteString(e.Name)
		if len(e.Key) > 0 {
			keys := make([]string, 0, len(e.Key))
			for k := range e.Key {
				keys = append(keys, k)
			}
			sort.Strings(keys)
			for _, k := range keys {
				sb.WriteString("[" + k + "=" + strconv.Quote(e.Key[k]) + "]")
			}
		}
	}
	return sb.String()
}

func (t *mockTree) tick(what string) error {
	t.calls++
	t.log = append(t.log, what)
	if t.failAt != 0 && t.calls == t.failAt {
		t.failed = true
		return errInjected
	}
	return nil
}

func (t *mockTree) root() *mockEntry { return &mockEntry{t: t, path: &sdcpb.Path{}} }

func (e *mockEntry) Navigate(p *sdcpb.Path) (xpath.Entry, error) {
	if err := e.t.tick("Navigate " + pathText(p)); err != nil {
		return nil, err
	}
	return &mockEntry{t: e.t, path: p.DeepCopy()}, nil
}

func (e *mockEntry) GetValue() (xpath.Datum, error) {
	if err := e.t.tick("GetValue " + pathText(e.path)); err != nil {
		return nil, err
	}
	if n := len(e.path.Elem); n > 0 {
		if d, ok := e.t.vals[e.path.Elem[n-1].Name]; ok {
			return d, nil
		}
	}
	if e.t.deflt != nil {
		return e.t.deflt, nil
	}
	return xpath.NewNodesetDatum(nil), nil
}

func (e *mockEntry) Copy() xpath.Entry { return &mockEntry{t: e.t, path: e.path.DeepCopy()} }

func (e *mockEntry) FollowLeafRef() (xpath.Entry, error) {
	if err := e.t.tick("FollowLeafRef " + pathText(e.path)); err != nil {
		return nil, err
	}
	p := e.t.lref
	if p == nil {
		p = &sdcpb.Path{IsRootBased: true, Elem: []*sdcpb.PathElem{sdcpb.NewPathElem("target", nil)}}
	}
	return &mockEntry{t: e.t, path: p.DeepCopy()}, nil
}

func (e *mockEntry) GetSdcpbPath() *sdcpb.Path { return e.path.DeepCopy() }

func (e *mockEntry) BreadthSearch(ctx gocontext.Context, p *sdcpb.Path) ([]xpath.Entry, error) {
	if err := e.t.tick("BreadthSearch " + pathText(p)); err != nil {
		return nil, err
	}
	return []xpath.Entry{&mockEntry{t: e.t, path: p.DeepCopy()}, &mockEntry{t: e.t, path: p.DeepCopy()}}, nil
}
