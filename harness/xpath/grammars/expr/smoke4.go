package expr

import (
	"bytes"
	"errors"
	"fmt"
	"maps"
	"slices"
	"sort"
	"strconv"
	"strings"
	"unicode/utf8"

	"github.com/sdcio/yang-parser/vrt"
)

var errSmokeBase = errors.New("base")

type smokeCodeErr struct{ code int }

func (e *smokeCodeErr) Error() string { return "code " + strconv.Itoa(e.code) }

// VerifH_SmokeLib2: more library idioms a refactoring may introduce.
func VerifH_SmokeLib2() {
	c := vrt.Byte("c")
	vrt.Assume(vrt.Or(c == 'b', c == 'z'))
	k := string([]byte{c})

	wrapped := fmt.Errorf("ctx %s: %w", k, errSmokeBase)
	var ce *smokeCodeErr
	chain := fmt.Errorf("outer: %w", &smokeCodeErr{7})
	vrt.Observe("errors", wrapped.Error(), errors.Is(wrapped, errSmokeBase), errors.Is(wrapped, chain), errors.Unwrap(wrapped) == errSmokeBase,
		errors.As(chain, &ce), ce != nil && ce.code == 7, errors.Join(errSmokeBase, nil).Error())

	xs := []string{"b", "a", k, "c"}
	slices.SortFunc(xs, func(a, b string) int { return strings.Compare(a, b) })
	pos, found := slices.BinarySearch(xs, "c")
	m := map[string]int{"x": 1, k: 2}
	keys := slices.Sorted(maps.Keys(m))
	ys := []int{3, 1, 2}
	sort.SliceStable(ys, func(i, j int) bool { return ys[i] < ys[j] })
	vrt.Observe("slices", strings.Join(xs, ""), pos, found, strings.Join(keys, ","), fmt.Sprint(ys), slices.Max(ys), slices.Equal(ys, []int{1, 2, 3}))

	uq, uerr := strconv.Unquote(`"a\tb"`)
	vrt.Observe("strconv", uq, uerr == nil, string(strconv.AppendQuote(nil, k)), string(strconv.AppendInt([]byte("n="), -42, 10)), string(utf8.AppendRune(nil, 'é')))
	vrt.Observe("strings", fmt.Sprint(strings.FieldsFunc("a;b,"+k, func(r rune) bool { return r == ';' || r == ',' })), fmt.Sprint(strings.SplitAfter("a.b."+k, ".")), strings.TrimRight("xx"+k+"  ", " "), strings.Count("a"+k+"a", "a"),
		strings.HasPrefix(k+"x", k), strings.Index("abc"+k, k), strings.ReplaceAll("a"+k+k, k, "-"), strings.TrimPrefix(k+"rest", k), strings.Contains("a"+k, "z"))
	vrt.Observe("bytes", string(bytes.TrimSpace([]byte(" "+k+" "))), len(bytes.Split([]byte("a,"+k), []byte(","))), bytes.Equal([]byte(k), []byte("z")), string(bytes.ToUpper([]byte(k))))
}

// VerifH_SmokeFmt: a format string and operands with symbolic bytes.
func VerifH_SmokeFmt() {
	c := vrt.Byte("c")
	d := vrt.Byte("d")
	vrt.Assume(vrt.Or(c == '%', vrt.Or(c == 'a', c == 'd')))
	vrt.Assume(vrt.Or(d == 's', vrt.Or(d == 'x', vrt.Or(d == '!', vrt.Or(d == '%', d == 'd')))))
	op := "o" + string([]byte{d}) + "p"
	f := "<" + string([]byte{c, d}) + ">"
	vrt.Observe("symfmt", fmt.Sprintf(f, op), fmt.Sprintf(f), fmt.Sprintf("%x|%X|%d|%5s|%q|", op, op, op, op, op), fmt.Errorf(f+"%s", op, 7).Error())
}

// VerifH_SmokeMaps
func VerifH_SmokeMaps() {
	c := vrt.Byte("c")
	vrt.Assume(vrt.Or(c == 'a', c == 'k'))
	m := map[string]int{"a": 1, "b": 2}
	m2 := maps.Clone(m)
	m2[string([]byte{c})] = 9
	delete(m2, "b")
	var nilm map[string]int
	vrt.Observe("maps", len(m), len(m2), m["a"], m2["a"], maps.Clone(nilm) == nil, maps.Equal(m, m2), fmt.Sprint(slices.Sorted(maps.Values(m2))))
	s := []int{1, 2, 3}
	s2 := slices.Clone(s)
	s2[0] = 7
	s3 := slices.Insert(s, 1, 9)
	s4 := slices.Delete(slices.Clone(s3), 0, 1)
	vrt.Observe("sliceops", s[0], s2[0], fmt.Sprint(s3), fmt.Sprint(s4), slices.Index(s3, 9), fmt.Sprint(slices.Compact([]int{1, 1, 2, 2, 1})))
}
