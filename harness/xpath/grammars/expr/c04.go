package expr

// C04 — exactly the supported XPath syntax is accepted.
//
// Sentences are built from K token slots over an alphabet that contains the supported
// tokens AND the constructs that must be rejected; an independent recursive-descent
// recogniser of the supported subset (with the XPath 1.0 §3.7 disambiguation rules)
// says accept / reject / unspecified.

import (
	"strconv"

	"github.com/sdcio/yang-parser/vrt"
	"github.com/sdcio/yang-parser/xpath/grammars/leafref"
)

type c04Tok struct {
	text string
	kind int
}

const (
	tNum = iota
	tBadNum // exponent form: not an XPath number
	tLit
	tBadLit // unterminated
	tName   // NCName (may turn into operator / function / axis name by context)
	tQName  // known prefix
	tBadQName
	tStar
	tQStar
	tPunct // ( ) , [ ] / | . .. @ :: //
	tOp    // + - = != < <= > >=
	tJunk  // characters that start no token
)

var c04Alphabet = []c04Tok{
	{"1", tNum}, {".5", tNum}, {"1e5", tBadNum},
	{"'x'", tLit}, {"\"y\"", tLit}, {"'", tBadLit},
	{"a", tName}, {"div", tName}, {"and", tName}, {"or", tName}, {"mod", tName},
	{"not", tName}, {"concat", tName}, {"true", tName}, {"current", tName}, {"deref", tName},
	{"bogus", tName}, {"text", tName}, {"node", tName}, {"child", tName},
	{"p:b", tQName}, {"q:c", tBadQName}, {"*", tStar}, {"p:*", tQStar},
	{"(", tPunct}, {")", tPunct}, {",", tPunct}, {"[", tPunct}, {"]", tPunct}, {"/", tPunct},
	{"|", tPunct}, {".", tPunct}, {"..", tPunct}, {"@", tPunct}, {"::", tPunct}, {"//", tPunct},
	{"+", tOp}, {"-", tOp}, {"=", tOp}, {"!=", tOp}, {"<", tOp}, {">=", tOp},
	{"$", tJunk}, {"#", tJunk},
}

// arities of the registered functions (the table the property calls "declared")
var c04Arity = map[string]int{
	"boolean": 1, "ceiling": 1, "concat": 2, "contains": 2, "re-match": 2, "count": 1, "false": 0, "floor": 1,
	"last": 0, "local-name": 1, "normalize-space": 1, "not": 1, "number": 1, "round": 1, "position": 0,
	"starts-with": 2, "string": 1, "string-length": 1, "substring": 3, "substring-after": 2,
	"substring-before": 2, "sum": 1, "translate": 3, "true": 0,
}

const (
	vAccept = iota
	vReject
	vUnspec
)

type c04Rec struct {
	toks        []c04Tok
	pos         int
	unspec      bool
	fail        bool
	wasOperator map[int]bool
	emptyParens bool
}

func (r *c04Rec) peek() *c04Tok {
	if r.pos < len(r.toks) {
		return &r.toks[r.pos]
	}
	return nil
}
func (r *c04Rec) is(text string) bool {
	t := r.peek()
	return t != nil && t.text == text && (t.kind == tPunct || t.kind == tOp || t.kind == tStar)
}
func (r *c04Rec) next() { r.pos++ }

// isOperatorPosition: XPath 1.0 §3.7 — there is a preceding token and it is none of
// @ :: ( [ , or an operator.
func (r *c04Rec) operatorPosition() bool {
	if r.pos == 0 {
		return false
	}
	p := r.toks[r.pos-1]
	switch p.kind {
	case tOp:
		return false
	case tPunct:
		switch p.text {
		case "@", "::", "(", "[", ",", "/", "//", "|":
			return false
		}
		return true
	case tStar:
		// a '*' that was itself an operator
		return !r.wasOperator[r.pos-1]
	case tName:
		return !r.wasOperator[r.pos-1]
	}
	return true
}

func (r *c04Rec) binaryOp(level int) (string, bool) {
	t := r.peek()
	if t == nil {
		return "", false
	}
	opPos := r.operatorPosition()
	var cand []string
	switch level {
	case 1:
		cand = []string{"or"}
	case 2:
		cand = []string{"and"}
	case 3:
		cand = []string{"=", "!="}
	case 4:
		cand = []string{"<", ">="}
	case 5:
		cand = []string{"+", "-"}
	case 6:
		cand = []string{"*", "div", "mod"}
	}
	for _, c := range cand {
		if t.text != c {
			continue
		}
		switch t.kind {
		case tOp:
			return c, true
		case tName, tStar:
			if opPos {
				return c, true
			}
		}
	}
	return "", false
}

func (r *c04Rec) expr(level int) {
	if level > 6 {
		r.unary()
		return
	}
	r.expr(level + 1)
	for !r.fail {
		if _, ok := r.binaryOp(level); !ok {
			return
		}
		r.markOperator()
		r.next()
		r.expr(level + 1)
	}
}

func (r *c04Rec) unary() {
	for r.is("-") {
		r.next()
	}
	r.union()
}

func (r *c04Rec) union() {
	r.pathExpr()
	for !r.fail && r.is("|") {
		r.next()
		r.pathExpr()
	}
}

func (r *c04Rec) pathExpr() {
	t := r.peek()
	if t == nil {
		r.fail = true
		return
	}
	// an NCName in operator position that is not an operator name is an error
	if t.kind == tName && r.operatorPosition() {
		r.fail = true
		return
	}
	switch {
	case t.kind == tNum, t.kind == tLit:
		r.next()
		r.filterTail()
	case t.kind == tPunct && t.text == "(":
		r.next()
		if r.is(")") {
			// "()" has no XPath production
			r.emptyParens = true
			r.next()
			r.filterTail()
			return
		}
		r.expr(1)
		if !r.is(")") {
			r.fail = true
			return
		}
		r.next()
		r.filterTail()
	case t.kind == tName && r.pos+1 < len(r.toks) && r.toks[r.pos+1].text == "(" && r.toks[r.pos+1].kind == tPunct:
		r.functionCall()
	default:
		r.locationPath()
	}
}

// filterTail: predicates and a trailing /RelativeLocationPath after a primary expression.
func (r *c04Rec) filterTail() {
	for !r.fail && r.is("[") {
		r.unspec = true // predicate on a primary expression: part of XPath, support unspecified
		r.predicate()
	}
	if !r.fail && r.is("/") {
		r.unspec = true
		r.next()
		r.relPath()
	}
}

func (r *c04Rec) functionCall() {
	name := r.peek().text
	r.next() // name
	r.next() // (
	switch name {
	case "text", "node", "comment", "processing-instruction":
		r.fail = true // node-type tests are not supported
		return
	case "current":
		if !r.is(")") {
			r.fail = true
			return
		}
		r.next()
		r.pathTail()
		return
	case "deref":
		r.locationPath()
		if r.fail || !r.is(")") {
			r.fail = true
			return
		}
		r.next()
		r.pathTail()
		return
	}
	want, known := c04Arity[name]
	if !known {
		r.fail = true
		return
	}
	n := 0
	if !r.is(")") {
		for {
			r.expr(1)
			n++
			if r.fail {
				return
			}
			if r.is(",") {
				r.next()
				continue
			}
			break
		}
	}
	if !r.is(")") {
		r.fail = true
		return
	}
	r.next()
	if n != want {
		r.fail = true
		return
	}
	r.filterTail()
}

// pathTail: what may follow current() / deref(...): '/' RelativeLocationPath.
func (r *c04Rec) pathTail() {
	if r.is("[") {
		r.unspec = true
		for !r.fail && r.is("[") {
			r.predicate()
		}
	}
	if r.is("/") {
		r.next()
		r.relPath()
	}
}

func (r *c04Rec) locationPath() {
	if r.is("/") {
		r.next()
		// a lone "/" is the root; a step may follow
		if r.stepAhead() {
			r.relPath()
		}
		return
	}
	r.relPath()
}

func (r *c04Rec) stepAhead() bool {
	t := r.peek()
	if t == nil {
		return false
	}
	switch t.kind {
	case tName:
		return !r.operatorPosition()
	case tStar:
		return !r.operatorPosition()
	case tQName, tQStar, tBadQName:
		return true
	case tPunct:
		return t.text == "." || t.text == ".." || t.text == "@"
	}
	return false
}

func (r *c04Rec) relPath() {
	r.step()
	for !r.fail && r.is("/") {
		r.next()
		r.step()
	}
}

func (r *c04Rec) step() {
	t := r.peek()
	if t == nil {
		r.fail = true
		return
	}
	switch t.kind {
	case tName:
		if r.operatorPosition() {
			r.fail = true
			return
		}
		// axis name? (followed by ::) — axes are not supported
		if r.pos+1 < len(r.toks) && r.toks[r.pos+1].text == "::" {
			r.fail = true
			return
		}
		r.next()
	case tStar:
		if r.operatorPosition() {
			r.fail = true
			return
		}
		r.next()
	case tQName, tQStar:
		r.next()
	case tPunct:
		if t.text == "." || t.text == ".." {
			r.next()
			if r.is("[") {
				r.fail = true // abbreviated steps take no predicates
			}
			return
		}
		r.fail = true
		return
	default:
		r.fail = true
		return
	}
	for !r.fail && r.is("[") {
		r.predicate()
	}
}

func (r *c04Rec) predicate() {
	r.next() // [
	r.expr(1)
	if r.fail || !r.is("]") {
		r.fail = true
		return
	}
	r.next()
}

// bookkeeping for §3.7: which name/star tokens were consumed as operators
func (r *c04Rec) markOperator() {
	if r.wasOperator == nil {
		r.wasOperator = map[int]bool{}
	}
	t := r.peek()
	if t.kind == tName || t.kind == tStar {
		r.wasOperator[r.pos] = true
	}
}

func recognise(toks []c04Tok) int {
	for _, t := range toks {
		switch t.kind {
		case tBadLit, tJunk, tBadQName:
			return vReject
		}
	}
	rec := &c04Rec{toks: toks, wasOperator: map[int]bool{}}
	rec.expr(1)
	if rec.fail || rec.pos != len(toks) {
		return vReject
	}
	if rec.unspec {
		return vUnspec
	}
	return vAccept
}


// VerifH_C04_Sentences: K token slots.
func VerifH_C04_Sentences() {
	K := vrt.Param("K", 3)
	alpha := c04Alphabet
	if a := vrt.Param("alphabet", 0); a > 0 && a < len(alpha) {
		alpha = alpha[:a]
	}
	n := 1 + vrt.Choice("n", K)
	var toks []c04Tok
	for i := 0; i < n; i++ {
		toks = append(toks, alpha[vrt.Choice("t"+strconv.Itoa(i), len(alpha))])
	}
	vrt.Reach("c04.sentences.n" + strconv.Itoa(n))
	c04CheckSentence(toks)
}

func c04CheckSentence(toks []c04Tok) {
	text := ""
	hasBadNum, emptyParens := false, false
	for i, t := range toks {
		if i > 0 {
			text += " "
		}
		text += t.text
		if t.kind == tBadNum {
			hasBadNum = true
		}
		if i > 0 && t.text == ")" && toks[i-1].text == "(" && (i < 2 || toks[i-2].kind != tName) {
			emptyParens = true
		}
	}
	// two lone quotes would pair up into a (terminated) literal: keep at most one
	lone := 0
	for _, t := range toks {
		if t.kind == tBadLit {
			lone++
		}
	}
	vrt.Assume(lone <= 1)
	verdict := recognise(toks)
	if hasBadNum && verdict == vAccept {
		verdict = vReject // exponent numbers are not XPath numbers
	}
	if emptyParens && verdict == vAccept {
		verdict = vReject
	}
	vrt.Class("C04-exponent-number-accepted", hasBadNum)
	vrt.Class("C04-empty-parentheses-accepted", emptyParens)
	_, err := NewExprMachine(text, c02MapFn)
	if err != nil {
		vrt.Observe("verdict", text, "rejected", verdict)
	} else {
		vrt.Observe("verdict", text, "accepted", verdict)
	}
	if verdict == vUnspec {
		vrt.Reach("c04.unspecified")
		return
	}
	vrt.Assert((err == nil) == (verdict == vAccept), "c04.sentence-verdict")
}

// ---- a fragment inside well-formed surroundings: a construct that must be rejected
// stays rejected when a correct function call, operator or parenthesis is wrapped
// around it or follows it (errors recorded by grammar actions must survive later
// reductions), and an accepted one stays accepted.

func c04Toks(words ...string) []c04Tok {
	var out []c04Tok
	for _, w := range words {
		found := false
		for _, t := range c04Alphabet {
			if t.text == w {
				out = append(out, t)
				found = true
			}
		}
		if !found {
			out = append(out, c04Tok{w, tName})
		}
	}
	return out
}

// "F" is the hole
var c04Contexts = [][]string{
	{"not", "(", "F", ")"},
	{"count", "(", "F", ")"},
	{"F", "or", "true", "(", ")"},
	{"true", "(", ")", "and", "F"},
	{"string", "(", "1", ")", "=", "F"},
	{"F", "=", "string", "(", "1", ")"},
	{"(", "F", ")"},
	{"-", "F"},
	{"concat", "(", "'x'", ",", "F", ")"},
	{"not", "(", "not", "(", "F", ")", ")"},
	{"a", "[", "F", "]"},
	{"F", "|", "a"},
}

var c04Fragments = [][]string{
	{"true", "(", "1", ")"}, {"boolean", "(", ")"}, {"not", "(", ")"}, {"concat", "(", "'x'", ")"},
	{"substring", "(", "'x'", ",", "1", ")"}, {"bogus", "(", ")"}, {"child", "::", "a"}, {"a", "//", "b"},
	{"text", "(", ")"}, {"node", "(", ")"}, {"a", "/", "@", "a"}, {"p:*"}, {"q:c"},
	{"true", "(", ")"}, {"count", "(", "a", ")"}, {"a", "/", "b"}, {"current", "(", ")", "/", "a"},
	{"substring", "(", "'x'", ",", "1", ",", "1", ")"}, {"a", "[", "b", "=", "1", "]"},
}

func VerifH_C04_Contexts() {
	K := vrt.Param("K", 2)
	var frag []c04Tok
	if vrt.Bool("listed") {
		frag = c04Toks(c04Fragments[vrt.Choice("fragment", len(c04Fragments))]...)
	} else {
		n := 1 + vrt.Choice("n", K)
		for i := 0; i < n; i++ {
			frag = append(frag, c04Alphabet[vrt.Choice("t"+strconv.Itoa(i), len(c04Alphabet))])
		}
	}
	ctx := c04Contexts[vrt.Choice("context", len(c04Contexts))]
	var toks []c04Tok
	for _, w := range ctx {
		if w == "F" {
			toks = append(toks, frag...)
		} else {
			toks = append(toks, c04Toks(w)...)
		}
	}
	vrt.Reach("c04.contexts")
	c04CheckSentence(toks)
}

// ---------------------------------------------------------------- leafref path-arg (RFC 6020 §12)

// "aé" and "p:b·c" are XML names but not RFC 6020 identifiers (ASCII only): never node identifiers
var lrAlphabet = []string{"/", "..", "a", "p:b", "q:c", "[", "]", "=", "current", "(", ")", "*", "1", "'x'", ".", "aé", "p:b·c"}

type lrRec struct {
	toks []string
	pos  int
}

func (r *lrRec) at(s string) bool { return r.pos < len(r.toks) && r.toks[r.pos] == s }
func (r *lrRec) nodeID() bool {
	if r.pos < len(r.toks) && (r.toks[r.pos] == "a" || r.toks[r.pos] == "p:b" || r.toks[r.pos] == "current") {
		// "current" is an ordinary identifier unless followed by "("
		if r.toks[r.pos] == "current" && r.pos+1 < len(r.toks) && r.toks[r.pos+1] == "(" {
			return false
		}
		r.pos++
		return true
	}
	return false
}

func (r *lrRec) predicates() bool {
	for r.at("[") {
		r.pos++
		if !r.nodeID() || !r.at("=") {
			return false
		}
		r.pos++
		// current() "/" 1*(".." "/") *(node-identifier "/") node-identifier
		if !(r.at("current") && r.pos+2 < len(r.toks) && r.toks[r.pos+1] == "(" && r.toks[r.pos+2] == ")") {
			return false
		}
		r.pos += 3
		if !r.at("/") {
			return false
		}
		r.pos++
		ups := 0
		for r.at("..") {
			r.pos++
			if !r.at("/") {
				return false
			}
			r.pos++
			ups++
		}
		if ups == 0 || !r.nodeID() {
			return false
		}
		for r.at("/") {
			r.pos++
			if !r.nodeID() {
				return false
			}
		}
		if !r.at("]") {
			return false
		}
		r.pos++
	}
	return true
}

func (r *lrRec) absolute() bool {
	n := 0
	for r.at("/") {
		r.pos++
		if !r.nodeID() || !r.predicates() {
			return false
		}
		n++
	}
	return n > 0
}

func lrRecognise(toks []string) bool {
	r := &lrRec{toks: toks}
	if r.at("/") {
		return r.absolute() && r.pos == len(toks)
	}
	ups := 0
	for r.at("..") {
		r.pos++
		if !r.at("/") {
			return false
		}
		r.pos++
		ups++
	}
	if ups == 0 || !r.nodeID() {
		return false
	}
	// descendant-path = node-identifier [*path-predicate absolute-path]
	if r.pos == len(toks) {
		return true
	}
	if !r.predicates() {
		return false
	}
	return r.absolute() && r.pos == len(toks)
}

// VerifH_C04_Leafref: K token slots through leafref.NewLeafrefMachine.
func VerifH_C04_Leafref() {
	K := vrt.Param("K", 4)
	n := 1 + vrt.Choice("n", K)
	var toks []string
	text := ""
	star := false
	for i := 0; i < n; i++ {
		t := lrAlphabet[vrt.Choice("t"+strconv.Itoa(i), len(lrAlphabet))]
		toks = append(toks, t)
		if i > 0 {
			text += " "
		}
		text += t
		if t == "*" {
			star = true
		}
	}
	ok := lrRecognise(toks)
	vrt.Class("C04-leafref-accepts-wildcard-node-identifier", star)
	vrt.Reach("c04.leafref.n" + strconv.Itoa(n))
	_, err := leafref.NewLeafrefMachine(text, c02MapFn)
	if err != nil {
		vrt.Observe("verdict", text, "rejected", ok)
	} else {
		vrt.Observe("verdict", text, "accepted", ok)
	}
	vrt.Assert((err == nil) == ok, "c04.leafref-verdict")
}

// VerifH_C04_Separators: what may separate tokens.  XPath 1.0 §3.7 ExprWhitespace is
// exactly SP, TAB, LF, CR; any other control character (VT, FF, NUL, DEL ...) between
// tokens is a stray character and the expression must be rejected.
func VerifH_C04_Separators() {
	exprs := [][]string{
		{"1", "+", "2"}, {"a", "and", "b"}, {"not", "(", "a", ")"}, {"count", "(", "*", ")", ">", "0"},
		{"a", "[", "k", "=", "'v'", "]", "/", "b"}, {"..", "/", "a", "=", "current", "(", ")", "/", "b"},
	}
	toks := exprs[vrt.Choice("expr", len(exprs))]
	gap := vrt.Choice("gap", len(toks)+1) // 0 = before the first token, len = after the last
	w := vrt.Byte("w")
	vrt.Assume(vrt.Or(w <= 0x20, w == 0x7f))
	mode := vrt.Choice("mode", 3) // the byte alone, after a blank, before a blank
	sep := string([]byte{w})
	switch mode {
	case 1:
		sep = " " + sep
	case 2:
		sep = sep + " "
	}
	text := ""
	for i, t := range toks {
		if i == gap {
			text += sep
		} else if i > 0 {
			text += " "
		}
		text += t
	}
	if gap == len(toks) {
		text += sep
	}
	white := vrt.Or(w == ' ', vrt.Or(w == '\t', vrt.Or(w == '\n', w == '\r')))
	vrt.Reach("c04.separators")
	_, err := NewExprMachine(text, c02MapFn)
	vrt.Observe("verdict", text, err == nil)
	vrt.Assert(vrt.Iff(err == nil, white), "c04.only-xpath-whitespace-separates-tokens")
}
