package expr

// C02 — location paths resolve to exactly the designated data node.
//
// The expression text is rendered from a nondeterministic SHAPE; an independent
// evaluator of the shape (not of the text) says which requests the data tree must
// receive.  The real compiler + machine run on a recording mock tree.

import (
	"strconv"
	"strings"

	sdcpb "github.com/sdcio/sdc-protos/sdcpb"
	"github.com/sdcio/yang-parser/vrt"
	"github.com/sdcio/yang-parser/xpath"
)

type c02Pred struct {
	key     string
	opKind  int
	litText string
}

const (
	opLit = iota
	opNum
	opFunc
	opParent  // ../x
	opCurrent // current()/../x
	opAbs     // /r/x
	numOpKinds
)

type c02Step struct {
	name  string // "" for '..', "." for self
	text  string // as written (may carry a prefix)
	preds []c02Pred
}

func c02MapFn(prefix string) (string, error) {
	switch prefix {
	case "p":
		return "urn:p", nil
	case "":
		return "urn:default", nil
	}
	return "", errInjected
}

var stepNames = []struct{ text, local string }{{"a", "a"}, {"b", "b"}, {"p:c", "c"}}

func genStep(tag string, allowPreds int) c02Step {
	k := vrt.Choice(tag+".kind", len(stepNames)+2)
	switch {
	case k == len(stepNames):
		return c02Step{name: "", text: ".."}
	case k == len(stepNames)+1:
		return c02Step{name: ".", text: "."}
	}
	st := c02Step{name: stepNames[k].local, text: stepNames[k].text}
	np := vrt.Choice(tag+".npreds", allowPreds+1)
	keys := []string{"k", "m"}
	if np == 2 && vrt.Bool(tag+".swap") {
		keys = []string{"m", "k"} // predicate order must not matter
	}
	for i := 0; i < np; i++ {
		p := c02Pred{key: keys[i], opKind: vrt.Choice(tag+".op"+strconv.Itoa(i), numOpKinds)}
		if p.opKind == opLit {
			// one symbolic content byte (no quote, printable ASCII)
			// ... or the empty literal: a key whose value is the empty string is still a key
			if vrt.Bool(tag + ".litempty" + strconv.Itoa(i)) {
				p.litText = ""
			} else {
				c := vrt.Byte(tag + ".lit" + strconv.Itoa(i))
				vrt.Assume(vrt.And(c >= 'a', c <= 'z'))
				p.litText = string([]byte{c})
			}
		}
		st.preds = append(st.preds, p)
	}
	return st
}

func (p c02Pred) render() string {
	switch p.opKind {
	case opLit:
		return "[" + p.key + " = '" + p.litText + "']"
	case opNum:
		return "[" + p.key + "=7]"
	case opFunc:
		return "[" + p.key + " = concat('x', 'y')]"
	case opParent:
		return "[" + p.key + " = ../x]"
	case opCurrent:
		return "[" + p.key + " = current()/../x]"
	}
	return "[" + p.key + " = /r/x]"
}

// expected: the request log and the final path, computed from the shape.
type c02Expect struct {
	log []string
}

func elemsText(rootBased bool, elems []string) string {
	s := "REL"
	if rootBased {
		s = "ABS"
	}
	for _, e := range elems {
		s += "/" + e
	}
	return s
}

func keyText(keys map[string]string) string {
	// sorted: k before m
	s := ""
	for _, k := range []string{"k", "m"} {
		if v, ok := keys[k]; ok {
			s += "[" + k + "=" + strconv.Quote(v) + "]"
		}
	}
	return s
}

// VerifH_C02_Paths: main path shapes, evaluated alone.
func VerifH_C02_Paths() {
	S := vrt.Param("S", 2)
	P := vrt.Param("P", 2)
	root := vrt.Choice("root", 4) // 0 relative, 1 absolute, 2 current()/, 3 deref(l)/
	ns := 1 + vrt.Choice("nsteps", S)
	var steps []c02Step
	for i := 0; i < ns; i++ {
		steps = append(steps, genStep("s"+strconv.Itoa(i), P))
	}
	// value of the operand leaf x (a symbolic 2-byte literal) and of the result node
	xval := lowerString("xval", 2*vrt.Choice("xval-nonempty", 2)) // the operand leaf may be empty
	rval := lowerString("rval", 2)

	// ---- render
	var sb strings.Builder
	switch root {
	case 1:
		sb.WriteString("/")
	case 2:
		sb.WriteString("current()/")
	case 3:
		sb.WriteString("deref(l)/")
	}
	for i, st := range steps {
		if i > 0 {
			sb.WriteString("/")
		}
		sb.WriteString(st.text)
		for _, p := range st.preds {
			sb.WriteString(p.render())
		}
	}
	text := sb.String()
	// a comparison with a multi-valued leaf before or after the path: state of one
	// sub-expression must not leak into the evaluation of the other
	prelude := 0
	if vrt.Param("around", 1) == 1 {
		prelude = vrt.Choice("around", 3)
	}
	pathOnly := text
	switch prelude {
	case 1:
		text = "ll = 'zz' or " + text
	case 2:
		text = text + " or ll = 'zz'"
	}

	// ---- expected requests
	var exp []string
	if prelude == 1 {
		exp = append(exp, "Navigate REL/ll", "GetValue REL/ll")
	}
	var elems []string
	rootBased := root == 1
	if root == 3 {
		exp = append(exp, "Navigate REL/l", "FollowLeafRef REL/l")
		rootBased = true
		elems = []string{"target"} // what the mock's FollowLeafRef answers
	}
	abnormalOperand := false
	lastName := ""
	if root == 3 {
		lastName = "target"
	}
	for _, st := range steps {
		switch st.name {
		case "":
			elems = append(elems, "..")
			lastName = ".."
			continue
		case ".":
			continue
		}
		keys := map[string]string{}
		base := append([]string(nil), elems...)
		base = append(base, st.name)
		for _, p := range st.preds {
			switch p.opKind {
			case opLit:
				keys[p.key] = p.litText
			case opNum:
				keys[p.key] = "7"
			case opFunc:
				keys[p.key] = "xy"
			case opParent:
				op := elemsText(rootBased, append(append([]string(nil), base...), "..", "x"))
				exp = append(exp, "Navigate "+op, "GetValue "+op)
				keys[p.key] = xval
			case opCurrent:
				exp = append(exp, "Navigate REL/../x", "GetValue REL/../x")
				keys[p.key] = xval
			case opAbs:
				exp = append(exp, "Navigate ABS/r/x", "GetValue ABS/r/x")
				keys[p.key] = xval
				abnormalOperand = true
			}
		}
		elems = append(elems, st.name+keyText(keys))
		lastName = st.name
	}
	final := elemsText(rootBased, elems)
	exp = append(exp, "Navigate "+final, "GetValue "+final)
	if prelude == 2 {
		exp = append(exp, "Navigate REL/ll", "GetValue REL/ll")
	}
	_ = pathOnly

	// known finding: an absolute operand path inside a predicate keeps the steps of the
	// path being filtered (a[k=/r/x] asks for /a/r/x)
	vrt.Class("C02-absolute-operand-path-in-predicate-keeps-outer-steps", abnormalOperand)
	// a predicate on a step followed by nothing but '.'/'..' steps etc. is all fine;
	// a path whose last step is '..' or that has no name step at all: the value is
	// looked up by the last element name
	vrt.Reach("c02.paths.root" + strconv.Itoa(root))

	m, err := NewExprMachine(text, c02MapFn)
	if err != nil {
		vrt.Observe("compile-error", text, err.Error())
		vrt.Assert(false, "c02.compiles")
		return
	}
	t := &mockTree{vals: map[string]xpath.Datum{"x": xpath.NewLiteralDatum(xval)}, deflt: xpath.NewLiteralDatum(rval)}
	if lastName == "x" {
		t.vals = map[string]xpath.Datum{}
		t.deflt = xpath.NewLiteralDatum(xval)
	}
	t.vals["ll"] = xpath.NewDatumSliceDatum([]xpath.Datum{xpath.NewLiteralDatum("p"), xpath.NewLiteralDatum("q")})
	res := xpath.NewCtxFromCurrent(nil, m, t.root()).Run()
	if e := res.GetError(); e != nil {
		vrt.Observe("run-error", text, e.Error())
	}
	vrt.Assert(res.GetError() == nil, "c02.no-run-error")
	if res.GetError() != nil {
		return
	}
	got := strings.Join(t.log, "\n")
	want := strings.Join(exp, "\n")
	vrt.Observe("expr", text)
	vrt.Observe("log", got)
	vrt.Assert(vrt.StrEq(got, want), "c02.requests")
	s, _ := res.GetLiteralResult()
	wantVal := rval
	if lastName == "x" {
		wantVal = xval
	}
	if prelude == 0 {
		vrt.Assert(vrt.StrEq(s, wantVal), "c02.value")
	} else {
		b, _ := res.GetBoolResult()
		vrt.Assert(b, "c02.value-with-comparison-around") // the path's value is a non-empty string
	}

	// the same machine evaluated again (fresh context, fresh tree) must ask for exactly
	// the same nodes: nothing of a run may stay behind in the compiled machine
	t2 := &mockTree{vals: t.vals, deflt: t.deflt}
	res2 := xpath.NewCtxFromCurrent(nil, m, t2.root()).Run()
	vrt.Assert(res2.GetError() == nil, "c02.second-run.no-run-error")
	if res2.GetError() == nil {
		vrt.Assert(vrt.StrEq(strings.Join(t2.log, "\n"), want), "c02.second-run.requests")
		s2, _ := res2.GetLiteralResult()
		if prelude == 0 {
			vrt.Assert(vrt.StrEq(s2, wantVal), "c02.second-run.value")
		}
	}
}

var _ = sdcpb.NewPathElem

// lowerString: n symbolic lower-case letters (opaque payload; its byte class is
// irrelevant to path resolution and keeps strconv.Quote in the log from forking).
func lowerString(name string, n int) string {
	bs := vrt.Bytes(name, n)
	for _, c := range bs {
		vrt.Assume(vrt.And(c >= 'a', c <= 'z'))
	}
	return string(bs)
}
