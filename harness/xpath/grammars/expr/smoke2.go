package expr

import (
	"bytes"
	"errors"
	"fmt"
	"slices"
	"sort"
	"strconv"
	"strings"
	"unicode"
	"unicode/utf8"

	"github.com/sdcio/yang-parser/vrt"
)

type smokePt struct {
	x, y int
	tag  string
	sub  [2]int
}

type smokeShape interface{ Area() int }
type smokeSq struct{ s int }
type smokeRc struct{ w, h int }

func (s smokeSq) Area() int  { return s.s * s.s }
func (r *smokeRc) Area() int { return r.w * r.h }

type smokeErr struct{ code int }

func (e *smokeErr) Error() string { return "E" + strconv.Itoa(e.code) }

func smokeDiv(a, b int) (q int, err error) {
	defer func() {
		if r := recover(); r != nil {
			err = fmt.Errorf("recovered: %v", r)
		}
	}()
	return a / b, nil
}

// VerifH_SmokeLang: language and library idioms; all observations are compared with the
// native run by the differential validation.
func VerifH_SmokeLang() {
	c := vrt.Byte("c")
	vrt.Assume(vrt.Or(c == '0', vrt.Or(c == 'b', c == 0xc3)))
	n := int(c % 7)

	// value semantics of structs and arrays
	p := smokePt{x: 1, y: n, tag: "p", sub: [2]int{3, 4}}
	q := p
	q.sub[0] = 9
	q.tag += "q"
	pp := &p
	pp.y++
	vrt.Observe("struct", p.x, p.y, p.tag, p.sub[0], q.sub[0], q.tag, p == q, p.sub == [2]int{3, 4})

	// slices: aliasing, append growth, copy overlap, full slice expr
	a := []int{1, 2, 3, 4, 5}
	b := a[1:3]
	b = append(b, 100)
	d := a[1:3:3]
	d = append(d, 200)
	copy(a[2:], a)
	vrt.Observe("slices", fmt.Sprint(a), fmt.Sprint(b), fmt.Sprint(d), len(b), cap(d) >= 3)
	var nilS []int
	vrt.Observe("nil-slices", nilS == nil, len(nilS), []byte("") == nil, fmt.Sprint(append(nilS, 1)), strings.Split("", ",") == nil, len(strings.Split("", ",")))

	// maps: delete during range, missing keys, struct keys
	m := map[string]int{"a": 1, "b": 2, "c": 3}
	delete(m, "b")
	m["d"] += 4
	keys := make([]string, 0)
	for k := range m {
		keys = append(keys, k)
	}
	sort.Strings(keys)
	_, has := m["zz"]
	mk := map[smokePt]string{p: "P"}
	vrt.Observe("maps", strings.Join(keys, ""), m["d"], has, len(m), mk[p], mk[q])

	// interfaces, type switches, method values, embedded pointers
	shapes := []smokeShape{smokeSq{n + 1}, &smokeRc{2, n}}
	tot := 0
	kinds := ""
	for _, s := range shapes {
		tot += s.Area()
		switch v := s.(type) {
		case smokeSq:
			kinds += "S" + strconv.Itoa(v.s)
		case *smokeRc:
			kinds += "R" + strconv.Itoa(v.h)
		}
	}
	f := shapes[0].Area
	var e error = &smokeErr{n}
	var se *smokeErr
	isSE := false
	if x, ok := e.(*smokeErr); ok {
		se, isSE = x, true
	}
	vrt.Observe("ifaces", tot, kinds, f(), e.Error(), isSE, se.code, errors.New("x").Error())

	// closures capturing loop variables (per-iteration semantics of go 1.22+)
	var fs []func() int
	for i := 0; i < 3; i++ {
		fs = append(fs, func() int { return i * 10 })
	}
	acc := 0
	for _, g := range fs {
		acc += g()
	}
	counter := func() func() int { k := n; return func() int { k++; return k } }()
	counter()
	vrt.Observe("closures", acc, counter())

	// defer / recover / named results, labelled loops, goto-less switch fallthrough
	_, derr := smokeDiv(1, n-n)
	qv, _ := smokeDiv(7, 2)
	cnt := 0
outer:
	for i := 0; i < 4; i++ {
		for j := 0; j < 4; j++ {
			if j == 2 {
				continue outer
			}
			if i == 3 {
				break outer
			}
			cnt++
		}
	}
	sw := ""
	switch {
	case n < 3:
		sw += "lt3"
		fallthrough
	case n < 5:
		sw += "lt5"
	default:
		sw += "big"
	}
	vrt.Observe("control", derr != nil, qv, cnt, sw)

	// strings, runes, utf8
	s := "hé" + string([]byte{c}) + "\xa9z"
	rs := 0
	for i, r := range s {
		rs += i*int(r%13) + 1
	}
	vrt.Observe("utf8", len(s), utf8.RuneCountInString(s), rs, utf8.ValidString(s), strings.ToUpper(s), strings.IndexRune(s, 'z'),
		unicode.IsLetter(rune(c)), unicode.IsDigit(rune(c)), strings.TrimFunc(s, unicode.IsLetter), strings.Repeat("ab", n%3), strings.Title("ab cd"))
	vrt.Observe("strconv", strconv.Quote(s), strconv.Itoa(-n), strconv.FormatInt(int64(n)*37, 16), strconv.FormatUint(uint64(c), 2))
	x1, e1 := strconv.ParseInt("0x1f", 0, 64)
	x2, e2 := strconv.ParseUint("300", 10, 8)
	x3, e3 := strconv.Atoi(string([]byte{c}))
	x4, e4 := strconv.ParseBool("T")
	vrt.Observe("parse", x1, e1 == nil, x2, e2 != nil, x3, e3 == nil, x4, e4 == nil)

	// fmt verbs
	vrt.Observe("fmt", fmt.Sprintf("%5d|%-5s|%05.1f|%x|%v|%+v|%T|%q|%c|%U|%t|%08b|%e", n, "ab", 3.14159, 255, p, q, e, "q\n", 'é', 'é', n > 2, n, 1234.5))
	vrt.Observe("fmt2", fmt.Sprint(a, "x", 1, 2, "y"), fmt.Sprintln("a", 1), fmt.Sprintf("%v %v %v", []string{"a"}, map[string]int{"k": 1}, &p == pp), fmt.Sprintf("%s %d%%", e, 5), fmt.Sprintf("%[2]d %[1]d %d", 1, 2))

	// bytes, slices, sort
	var buf bytes.Buffer
	buf.WriteString("ab")
	buf.WriteByte(c)
	buf.Write([]byte{'x'})
	fmt.Fprintf(&buf, "%03d", n)
	xs := []int{5, 2, 8, n}
	sort.Ints(xs)
	ys := []string{"b", "a", string([]byte{c})}
	slices.Sort(ys)
	sort.Slice(a, func(i, j int) bool { return a[i] > a[j] })
	idx := sort.SearchInts(xs, 5)
	vrt.Observe("buf", buf.String(), buf.Len(), bytes.Contains(buf.Bytes(), []byte("bx")), fmt.Sprint(xs), fmt.Sprint(ys), fmt.Sprint(a), idx, slices.Contains(xs, 8), slices.Index(ys, "b"))

	// integer arithmetic corner cases
	var u8 uint8 = c
	var i8 int8 = int8(c)
	var i32 int32 = int32(c) << 24
	vrt.Observe("ints", u8+200, i8>>1, i8/3, i8%3, -i8, i32, i32>>28, uint32(i32)>>28, ^u8, u8&^0x0f, int64(c)<<60, uint(c)>>1, 7/-2, -7%3, 1<<(c%9))
}
