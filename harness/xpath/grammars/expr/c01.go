package expr

// C01 — XPath scalar evaluation follows XPath 1.0.
//
// Each harness compiles a CONCRETE template expression whose leaves are single-step
// paths (a, b, c) with the real compiler and runs it with the real stack machine on a
// mock tree whose leaf values are SYMBOLIC datums.  The result is compared with a
// reference model transcribed from XPath 1.0 §3.4, §3.5, §4 (spec* functions below).

import (
	"math"
	"strconv"
	"strings"

	"github.com/sdcio/yang-parser/vrt"
	"github.com/sdcio/yang-parser/xpath"
)

// ---------------------------------------------------------------- operands

const (
	kBool = iota
	kNum
	kLit
	kAbsent
	kList // leaf-list with 1..2 literal entries
)

type operand struct {
	kind int
	b    bool
	n    float64
	s    string
	ls   []string
}

// number modes
const (
	numSymbolic = iota // any float64
	numPrintable       // NaN, ±0, ±Inf (symbolic within that class) or one of a few concrete finite values
)

var printableNums = []float64{1, -1.5, 0.5, 100000, 12345678, -0.25, 0.00001}

func genNumber(name string, mode int) float64 {
	if mode == numSymbolic {
		return vrt.Float64(name + ".n")
	}
	c := vrt.Choice(name+".nsel", len(printableNums)+1)
	if c < len(printableNums) {
		return printableNums[c]
	}
	x := vrt.Float64(name + ".n")
	special := vrt.Or(vrt.IsNaN(x), vrt.Or(x == 0, vrt.Or(x == math.Inf(1), x == math.Inf(-1))))
	vrt.Assume(special)
	return x
}

// asciiString: n symbolic bytes < 0x80 (XPath strings are Unicode; non-ASCII is covered
// by dedicated concrete-content templates).
func asciiString(name string, n int) string {
	bs := vrt.Bytes(name, n)
	for _, c := range bs {
		vrt.Assume(c < 0x80)
	}
	return string(bs)
}

// genOperand chooses a datum kind and symbolic content.  kinds is a bit set.
func genOperand(name string, kinds []int, numMode int, maxLen int) operand {
	k := kinds[vrt.Choice(name+".kind", len(kinds))]
	o := operand{kind: k}
	switch k {
	case kBool:
		o.b = vrt.Bool(name + ".b")
	case kNum:
		o.n = genNumber(name, numMode)
	case kLit:
		l := vrt.Choice(name+".len", maxLen+1)
		o.s = asciiString(name+".s", l)
	case kAbsent:
	case kList:
		cnt := 1 + vrt.Choice(name+".cnt", vrt.Param("maxcnt", 2))
		for i := 0; i < cnt; i++ {
			// entries have exactly one byte (plus the empty string for the first one)
			l := 1
			if i == 0 {
				l = vrt.Choice(name+".len"+strconv.Itoa(i), 2)
			}
			o.ls = append(o.ls, asciiString(name+".s"+strconv.Itoa(i), l))
		}
	}
	return o
}

func (o operand) datum() xpath.Datum {
	switch o.kind {
	case kBool:
		return xpath.NewBoolDatum(o.b)
	case kNum:
		return xpath.NewNumDatum(o.n)
	case kLit:
		return xpath.NewLiteralDatum(o.s)
	case kList:
		var ds []xpath.Datum
		for _, s := range o.ls {
			ds = append(ds, xpath.NewLiteralDatum(s))
		}
		return xpath.NewDatumSliceDatum(ds)
	}
	return xpath.NewNodesetDatum(nil)
}

func (o operand) isNodeSet() bool { return o.kind == kAbsent || o.kind == kList }

// ---------------------------------------------------------------- reference model (XPath 1.0)

func isXSpace(c byte) bool { return c == ' ' || c == '\t' || c == '\n' || c == '\r' }

// specStrToNum: XPath 1.0 §4.4 number(): optional white space, optional '-', Number,
// white space; anything else NaN.  Exact for the short strings used here (mantissa
// < 2^53 and a power of ten <= 10^22 divide to the correctly rounded value).
func specStrToNum(s string) float64 {
	i, n := 0, len(s)
	for i < n && isXSpace(s[i]) {
		i++
	}
	neg := false
	if i < n && s[i] == '-' {
		neg = true
		i++
	}
	var mant uint64
	digits, frac := 0, 0
	for i < n && s[i] >= '0' && s[i] <= '9' {
		mant = mant*10 + uint64(s[i]-'0')
		digits++
		i++
	}
	if i < n && s[i] == '.' {
		i++
		for i < n && s[i] >= '0' && s[i] <= '9' {
			mant = mant*10 + uint64(s[i]-'0')
			digits++
			frac++
			i++
		}
	}
	if digits == 0 {
		return math.NaN()
	}
	for i < n && isXSpace(s[i]) {
		i++
	}
	if i != n {
		return math.NaN()
	}
	f := float64(mant)
	if frac > 0 {
		f = f / pow10tab[frac]
	}
	if neg {
		f = -f
	}
	return f
}

var pow10tab = []float64{1, 1e1, 1e2, 1e3, 1e4, 1e5, 1e6, 1e7, 1e8, 1e9, 1e10, 1e11, 1e12, 1e13, 1e14, 1e15, 1e16, 1e17, 1e18, 1e19, 1e20, 1e21, 1e22}

// specNumToStr for the printable number class (§4.2 string()).
func specNumToStr(x float64) string {
	if vrt.IsNaN(x) {
		return "NaN"
	}
	if x == 0 {
		return "0"
	}
	if x == math.Inf(1) {
		return "Infinity"
	}
	if x == math.Inf(-1) {
		return "-Infinity"
	}
	// finite, non-zero: concrete by construction of numPrintable
	return strconv.FormatFloat(x, 'f', -1, 64)
}

func (o operand) specBool() bool {
	switch o.kind {
	case kBool:
		return o.b
	case kNum:
		return vrt.And(o.n != 0, vrt.Not(vrt.IsNaN(o.n)))
	case kLit:
		return len(o.s) > 0
	case kList:
		return true
	}
	return false
}

func (o operand) specNum() float64 {
	switch o.kind {
	case kBool:
		return vrt.IteFloat64(o.b, 1, 0)
	case kNum:
		return o.n
	case kLit:
		return specStrToNum(o.s)
	case kList:
		return specStrToNum(o.ls[0]) // string-value of the first node
	}
	return math.NaN()
}

func (o operand) specStr() string {
	switch o.kind {
	case kBool:
		if o.b {
			return "true"
		}
		return "false"
	case kNum:
		return specNumToStr(o.n)
	case kLit:
		return o.s
	case kList:
		return o.ls[0]
	}
	return ""
}

// nodeStrings: string-values of the nodes of a node-set operand.
func (o operand) nodeStrings() []string {
	if o.kind == kList {
		return o.ls
	}
	return nil
}

const (
	opAdd = iota
	opSub
	opMul
	opDiv
	opMod
	opEq
	opNe
	opLt
	opLe
	opGt
	opGe
	opAnd
	opOr
	numOps
)

var opText = []string{"+", "-", "*", "div", "mod", "=", "!=", "<", "<=", ">", ">=", "and", "or"}

func numCmp(op int, x, y float64) bool {
	switch op {
	case opEq:
		return x == y
	case opNe:
		return x != y
	case opLt:
		return x < y
	case opLe:
		return x <= y
	case opGt:
		return x > y
	}
	return x >= y
}

func strCmp(op int, x, y string) bool {
	if op == opEq {
		return vrt.StrEq(x, y)
	}
	return vrt.Not(vrt.StrEq(x, y))
}

// specCompare: XPath 1.0 §3.4 with the property's reading that an absent node is false
// in every comparison.
func specCompare(op int, a, b operand) bool {
	if a.kind == kAbsent || b.kind == kAbsent {
		return false
	}
	rel := op >= opLt
	switch {
	case a.isNodeSet() && b.isNodeSet():
		r := false
		for _, x := range a.nodeStrings() {
			for _, y := range b.nodeStrings() {
				if rel {
					r = vrt.Or(r, numCmp(op, specStrToNum(x), specStrToNum(y)))
				} else {
					r = vrt.Or(r, strCmp(op, x, y))
				}
			}
		}
		return r
	case a.isNodeSet() || b.isNodeSet():
		ns, other, nsLeft := a, b, true
		if b.isNodeSet() {
			ns, other, nsLeft = b, a, false
		}
		if other.kind == kBool {
			x, y := ns.specBool(), other.b
			if !nsLeft {
				x, y = y, x
			}
			if rel {
				return numCmp(op, vrt.IteFloat64(x, 1, 0), vrt.IteFloat64(y, 1, 0))
			}
			if op == opEq {
				return vrt.Iff(x, y)
			}
			return vrt.Not(vrt.Iff(x, y))
		}
		r := false
		for _, sv := range ns.nodeStrings() {
			var c bool
			if other.kind == kNum || rel {
				x, y := specStrToNum(sv), other.specNum()
				if !nsLeft {
					x, y = y, x
				}
				c = numCmp(op, x, y)
			} else {
				x, y := sv, other.specStr()
				if !nsLeft {
					x, y = y, x
				}
				c = strCmp(op, x, y)
			}
			r = vrt.Or(r, c)
		}
		return r
	}
	if rel {
		return numCmp(op, a.specNum(), b.specNum())
	}
	switch {
	case a.kind == kBool || b.kind == kBool:
		if op == opEq {
			return vrt.Iff(a.specBool(), b.specBool())
		}
		return vrt.Not(vrt.Iff(a.specBool(), b.specBool()))
	case a.kind == kNum || b.kind == kNum:
		return numCmp(op, a.specNum(), b.specNum())
	}
	return strCmp(op, a.specStr(), b.specStr())
}

// ---------------------------------------------------------------- running and checking

type runResult struct {
	res interface {
		GetBoolResult() (bool, error)
		GetNumResult() (float64, error)
		GetLiteralResult() (string, error)
		GetError() error
		IsNumber() bool
	}
}

func runTemplate(text string, vals map[string]xpath.Datum) (runResult, bool) {
	m, err := NewExprMachine(text, nil)
	if err != nil {
		vrt.Observe("compile-error", text, err.Error())
		vrt.Assert(false, "c01.template-compiles")
		return runResult{}, false
	}
	t := &mockTree{vals: vals}
	res := xpath.NewCtxFromCurrent(nil, m, t.root()).Run()
	return runResult{res}, true
}

func expectNoError(r runResult, id string) bool {
	err := r.res.GetError()
	if err != nil {
		vrt.Observe("run-error", err.Error())
	}
	vrt.Assert(err == nil, id+".no-run-error")
	return err == nil
}

func expectBool(r runResult, want bool, id string) {
	if !expectNoError(r, id) {
		return
	}
	b, _ := r.res.GetBoolResult()
	n, _ := r.res.GetNumResult()
	vrt.Observe("bool-result", b)
	vrt.Assert(vrt.Iff(b, want), id+".value")
	vrt.Assert(vrt.FloatEq(n, vrt.IteFloat64(want, 1, 0)), id+".is-boolean-kind")
	vrt.Assert(!r.res.IsNumber(), id+".not-number-kind")
}

func expectNum(r runResult, want float64, id string) {
	if !expectNoError(r, id) {
		return
	}
	n, _ := r.res.GetNumResult()
	vrt.Observe("num-result", n)
	vrt.Assert(r.res.IsNumber(), id+".is-number-kind")
	vrt.Assert(vrt.FloatEq(n, want), id+".value")
}

func expectStr(r runResult, want string, id string) {
	if !expectNoError(r, id) {
		return
	}
	s, _ := r.res.GetLiteralResult()
	b, _ := r.res.GetBoolResult()
	vrt.Observe("str-result", s)
	vrt.Assert(vrt.StrEq(s, want), id+".value")
	vrt.Assert(!r.res.IsNumber(), id+".not-number-kind")
	vrt.Assert(vrt.Iff(b, len(want) > 0), id+".is-string-kind")
}

var scalarKinds = []int{kBool, kNum, kLit, kAbsent}
var allKinds = []int{kBool, kNum, kLit, kAbsent, kList}

// VerifH_C01_Arith: a OP b for the five arithmetic operators and unary minus, operands
// of every scalar kind, numbers fully symbolic.
func VerifH_C01_Arith() {
	L := vrt.Param("L", 2)
	op := vrt.Choice("op", 6)
	a := genOperand("a", scalarKinds, numSymbolic, L)
	vals := map[string]xpath.Datum{"a": a.datum()}
	var text string
	var want float64
	x := a.specNum()
	if op == 5 {
		text = "- a"
		want = -x
	} else {
		b := genOperand("b", scalarKinds, numSymbolic, L)
		vals["b"] = b.datum()
		y := b.specNum()
		text = "a " + opText[op] + " b"
		switch op {
		case opAdd:
			want = x + y
		case opSub:
			want = x - y
		case opMul:
			want = x * y
		case opDiv:
			want = x / y
			// known finding: x div 0 is +Infinity whatever x is
			vrt.Class("C01-div-by-zero-always-plus-infinity", y == 0)
		case opMod:
			want = vrt.Fmod(x, y)
		}
	}
	vrt.Reach("c01.arith." + text)
	r, ok := runTemplate(text, vals)
	if !ok {
		return
	}
	expectNum(r, want, "c01.arith["+text+"]")
}

// VerifH_C01_Compare: a OP b for = != < <= > >= over every operand kind incl. absent
// nodes and multi-valued leaf-lists.
func VerifH_C01_Compare() {
	L := vrt.Param("L", 2)
	op := opEq + vrt.Choice("op", 6)
	// A leaf-list compared with a boolean is left unspecified (XPath converts the node-set
	// to a boolean, the property asks for an existential comparison): not asserted.
	noBool := []int{kNum, kLit, kAbsent}
	ka, kb := scalarKinds, scalarKinds
	switch vrt.Param("lists", 0) {
	case 1:
		ka, kb = []int{kList}, noBool
	case 2:
		ka, kb = noBool, []int{kList}
	case 3:
		ka, kb = []int{kList}, []int{kList}
	}
	a := genOperand("a", ka, numSymbolic, L)
	b := genOperand("b", kb, numSymbolic, L)
	text := "a " + opText[op] + " b"
	// known findings (see known-findings.json)
	vrt.Class("C01-leaflist-on-right-of-eq-or-any-ne-is-run-error",
		(op == opEq && b.kind == kList) || (op == opNe && (a.kind == kList || b.kind == kList)))
	vrt.Class("C01-leaflist-relational-uses-joined-string", op >= opLt && (len(a.ls) > 1 || len(b.ls) > 1))
	vrt.Class("C01-boolean-of-NaN-is-true", op <= opNe && ((a.kind == kBool && b.kind == kNum && vrt.IsNaN(b.n)) || (b.kind == kBool && a.kind == kNum && vrt.IsNaN(a.n))))
	want := specCompare(op, a, b)
	vrt.Reach("c01.compare." + opText[op])
	r, ok := runTemplate(text, map[string]xpath.Datum{"a": a.datum(), "b": b.datum()})
	if !ok {
		return
	}
	expectBool(r, want, "c01.compare["+opText[op]+"]")
}

// VerifH_C01_Logic: and / or / not() / boolean() over every scalar kind.
func VerifH_C01_Logic() {
	L := vrt.Param("L", 2)
	f := vrt.Choice("f", 4)
	a := genOperand("a", allKinds, numSymbolic, L)
	vals := map[string]xpath.Datum{"a": a.datum()}
	var text string
	var want bool
	switch f {
	case 0, 1:
		b := genOperand("b", allKinds, numSymbolic, L)
		vals["b"] = b.datum()
		if f == 0 {
			text, want = "a and b", vrt.And(a.specBool(), b.specBool())
		} else {
			text, want = "a or b", vrt.Or(a.specBool(), b.specBool())
		}
		vrt.Class("C01-boolean-of-NaN-is-true", vrt.Or(vrt.And(a.kind == kNum, vrt.IsNaN(a.n)), vrt.And(b.kind == kNum, vrt.IsNaN(b.n))))
	case 2:
		text, want = "not(a)", vrt.Not(a.specBool())
		vrt.Class("C01-boolean-of-NaN-is-true", vrt.And(a.kind == kNum, vrt.IsNaN(a.n)))
	case 3:
		text, want = "boolean(a)", a.specBool()
		vrt.Class("C01-boolean-of-NaN-is-true", vrt.And(a.kind == kNum, vrt.IsNaN(a.n)))
	}
	vrt.Reach("c01.logic." + text)
	r, ok := runTemplate(text, vals)
	if !ok {
		return
	}
	expectBool(r, want, "c01.logic["+text+"]")
}

// specRound: XPath 1.0 round().
func specRound(x float64) float64 {
	fl := math.Floor(x)
	up := x-fl >= 0.5
	r := vrt.IteFloat64(up, fl+1, fl)
	// negative zero for -0.5 <= x < 0 (and for -0 itself)
	negz := vrt.And(r == 0, vrt.Or(x < 0, vrt.And(x == 0, math.Signbit(x))))
	r = vrt.IteFloat64(negz, math.Copysign(0, -1), r)
	// NaN and infinities are returned unchanged
	keep := vrt.Or(vrt.IsNaN(x), vrt.Or(x == math.Inf(1), x == math.Inf(-1)))
	return vrt.IteFloat64(keep, x, r)
}

// strNumClasses attaches the two recorded deviations of the string -> number conversion
// (numberFromString = strconv.ParseFloat(strings.TrimSpace(s))) to a string operand:
// VT/FF are stripped like white space, and every spelling strconv accepts beyond the
// XPath Number production ('+1', '1e3', '.5e1', 'inf', 'Infinity', 'nan', hex floats)
// converts to a number instead of NaN.
func strNumClasses(s string) {
	isGoBlank := func(c byte) bool { return c == ' ' || c == '\t' || c == '\n' || c == '\r' || c == '\v' || c == '\f' }
	i, j := 0, len(s)
	vtff := false
	for i < j && isGoBlank(s[i]) {
		if s[i] == '\v' || s[i] == '\f' {
			vtff = true
		}
		i++
	}
	for j > i && isGoBlank(s[j-1]) {
		if s[j-1] == '\v' || s[j-1] == '\f' {
			vtff = true
		}
		j--
	}
	t := s[i:j]
	_, err := strconv.ParseFloat(t, 64)
	goAccepts := err == nil
	xNumber := !vrt.IsNaN(specStrToNum(t))
	vrt.Class("C01-number-of-string-strips-vt-ff", vtff && goAccepts && xNumber)
	vrt.Class("C01-number-of-string-accepts-go-float-forms", goAccepts && !xNumber)
}

// VerifH_C01_NumFuncs: number() floor() ceiling() round() over every scalar kind.
func VerifH_C01_NumFuncs() {
	L := vrt.Param("L", 2)
	f := vrt.Choice("f", 4)
	a := genOperand("a", scalarKinds, numSymbolic, L)
	x := a.specNum()
	if a.kind == kLit {
		strNumClasses(a.s)
	}
	var text string
	var want float64
	switch f {
	case 0:
		text, want = "number(a)", x
	case 1:
		text, want = "floor(a)", math.Floor(x)
	case 2:
		text, want = "ceiling(a)", math.Ceil(x)
	case 3:
		text, want = "round(a)", specRound(x)
		vrt.Class("C01-round-negative-or-huge-arguments", vrt.Or(x < 0, vrt.Or(vrt.And(x == 0, math.Signbit(x)), vrt.Or(x >= 4503599627370496.0, vrt.And(x > 0.49999999999999989, x < 0.5)))))
	}
	vrt.Reach("c01.numfn." + text)
	r, ok := runTemplate(text, map[string]xpath.Datum{"a": a.datum()})
	if !ok {
		return
	}
	expectNum(r, want, "c01.numfn["+text+"]")
}

var _ = strings.Contains

// VerifH_C01_ModConcrete: the remainder operator on concrete operand pairs from the
// classes where an "equivalent" formula differs from the IEEE remainder XPath 1.0 §3.5
// prescribes (infinite divisor, quotient beyond 53 bits, signed zeros, tiny divisors).
// In the symbolic harness `mod` is an uninterpreted function shared by implementation
// and model; this harness pins it to the real function on the delicate classes.
func VerifH_C01_ModConcrete() {
	vals := []float64{5, -5, 2, -2, 0.5, -0.3, 3, 10, 1e20, 9223372036854775808, 1e308, 5e-324,
		math.Inf(1), math.Inf(-1), math.NaN(), 0, math.Copysign(0, -1), 1, 7.5, -7.5}
	x := vals[vrt.Choice("a", len(vals))]
	y := vals[vrt.Choice("b", len(vals))]
	want := math.Mod(x, y)
	vrt.Reach("c01.modconcrete")
	r, ok := runTemplate("a mod b", map[string]xpath.Datum{"a": xpath.NewNumDatum(x), "b": xpath.NewNumDatum(y)})
	if !ok {
		return
	}
	expectNum(r, want, "c01.modconcrete")
}

// VerifH_C01_NumberPadding: string -> number conversion strips exactly the XPath white
// space (#x20 #x9 #xD #xA, XPath 1.0 §4.4) around the number; any other control character
// makes the string not a number (NaN).  The padded text reaches the conversion as a
// leaf value, through number(), arithmetic and a comparison.
func VerifH_C01_NumberPadding() {
	pad := func(tag string) (string, bool, bool) {
		if !vrt.Bool(tag + ".present") {
			return "", true, false
		}
		w := vrt.Byte(tag)
		vrt.Assume(vrt.Or(w <= 0x20, w == 0x7f))
		xws := vrt.Or(w == ' ', vrt.Or(w == '\t', vrt.Or(w == '\n', w == '\r')))
		goOnly := vrt.Or(w == '\v', w == '\f') // what strings.TrimSpace strips beyond XPath's set
		return string([]byte{w}), xws, goOnly
	}
	l, lOK, lGo := pad("left")
	r, rOK, rGo := pad("right")
	// the numeral itself: an XPath Number, or a spelling only strconv accepts
	numeral := []string{"7", "+7", "7e0", "0x7p0"}[vrt.Choice("numeral", 4)]
	goForm := numeral != "7"
	s := l + numeral + r
	isNum := vrt.And(!goForm, vrt.And(lOK, rOK))
	goTrims := vrt.And(vrt.Or(lOK, lGo), vrt.Or(rOK, rGo)) // both paddings are stripped by strings.TrimSpace
	// known: VT and FF are stripped too (strings.TrimSpace)
	vrt.Class("C01-number-of-string-strips-vt-ff", vrt.And(!goForm, vrt.And(vrt.Or(lGo, rGo), goTrims)))
	// known: the conversion is strconv.ParseFloat
	vrt.Class("C01-number-of-string-accepts-go-float-forms", vrt.And(goForm, goTrims))
	form := vrt.Choice("form", 3)
	text := []string{"number(a)", "a + 1", "a = 7"}[form]
	vrt.Reach("c01.numberpadding")
	res, ok := runTemplate(text, map[string]xpath.Datum{"a": xpath.NewLiteralDatum(s)})
	if !ok {
		return
	}
	switch form {
	case 0:
		expectNum(res, vrt.IteFloat64(isNum, 7, math.NaN()), "c01.numberpadding[number]")
	case 1:
		expectNum(res, vrt.IteFloat64(isNum, 8, math.NaN()), "c01.numberpadding[plus]")
	default:
		// a literal compared with a number: both converted to numbers
		expectBool(res, isNum, "c01.numberpadding[equals]")
	}
}
