package expr

import (
	"regexp"
	"strings"
	"sync"
	"sync/atomic"

	"github.com/sdcio/yang-parser/vrt"
)

type smokeCache struct {
	mu sync.RWMutex
	m  map[string]int
}

func (c *smokeCache) get(k string) (int, bool) {
	c.mu.RLock()
	defer c.mu.RUnlock()
	v, ok := c.m[k]
	return v, ok
}

func (c *smokeCache) put(k string, v int) {
	c.mu.Lock()
	c.m[k] = v
	c.mu.Unlock()
}

var smokeOnce sync.Once
var smokeOnceVal int

var smokePool = sync.Pool{New: func() interface{} { return new(strings.Builder) }}

// VerifH_SmokeConc: synchronisation idioms and goroutines as sequentially observable.
func VerifH_SmokeConc() {
	c := vrt.Byte("c")
	vrt.Assume(vrt.Or(c == 'a', c == 'z'))
	k := string([]byte{c})
	cache := &smokeCache{m: map[string]int{}}
	cache.put(k, 1)
	cache.put("q", 2)
	v, ok := cache.get("a")
	smokeOnce.Do(func() { smokeOnceVal++ })
	smokeOnce.Do(func() { smokeOnceVal++ })
	var cnt int64
	atomic.AddInt64(&cnt, 5)
	var av atomic.Value
	av.Store(k)
	var ab atomic.Bool
	ab.Store(true)
	vrt.Observe("sync", v, ok, smokeOnceVal > 0, atomic.LoadInt64(&cnt), av.Load().(string), ab.Load())

	// unbuffered producer / consumer, close, range over channel
	ch := make(chan int)
	go func() {
		for i := 0; i < 3; i++ {
			ch <- i * int(c%5)
		}
		close(ch)
	}()
	sum := 0
	for x := range ch {
		sum += x
	}
	// buffered channel used as a queue, select with default
	bq := make(chan string, 2)
	bq <- "x"
	bq <- k
	full := false
	select {
	case bq <- "overflow":
	default:
		full = true
	}
	first := <-bq
	// done-channel + WaitGroup
	var wg sync.WaitGroup
	res := make([]int, 2)
	for i := 0; i < 2; i++ {
		wg.Add(1)
		go func(i int) {
			defer wg.Done()
			res[i] = i + int(c)
		}(i)
	}
	wg.Wait()
	vrt.Observe("chans", sum, full, first, len(bq), res[0], res[1])

	b := smokePool.Get().(*strings.Builder)
	b.Reset()
	b.WriteString(k)
	smokePool.Put(b)
	vrt.Observe("pool", b.String())

	re := regexp.MustCompile(`^(a|b)+[0-9]{2,3}$`)
	re2, err := regexp.Compile(`(`)
	vrt.Observe("regexp", re.MatchString("ab12"), re.MatchString("ab1"), re2 == nil, err != nil, re.FindStringSubmatch("ba123")[1], regexp.QuoteMeta("a.b"))
}
