package expr

// C05 — compilation and execution are total and report failures faithfully.

import (
	"strconv"
	"strings"
	"unicode/utf8"

	"github.com/sdcio/yang-parser/vrt"
	"github.com/sdcio/yang-parser/xpath"
	"github.com/sdcio/yang-parser/xpath/grammars/leafref"
	"github.com/sdcio/yang-parser/xpath/grammars/path_eval"
)

// checkErrorText: the message quotes the expression and marks a position inside it.
func checkErrorText(msg, expr, id string) {
	head := "Failed to compile '" + expr + "'\n"
	okHead := false
	if len(msg) >= len(head) {
		okHead = vrt.StrEq(msg[:len(head)], head)
	}
	vrt.Assert(okHead, id+".error-quotes-expression")
	okMark := false
	for k := 0; k <= len(expr); k++ {
		tail := "Got to approx [X] in '" + expr[:k] + " [X] " + expr[k:] + "'\n"
		if len(msg) >= len(tail) {
			okMark = vrt.Or(okMark, vrt.StrEq(msg[len(msg)-len(tail):], tail))
		}
	}
	vrt.Assert(okMark, id+".error-marks-position-inside-expression")
}

func compileTotal(grammar int, text string, id string) {
	var m *xpath.Machine
	var err error
	ok, ptxt := vrt.NoPanic(func() {
		switch grammar {
		case 0:
			m, err = NewExprMachine(text, c02MapFn)
		case 1:
			m, err = path_eval.NewPathEvalMachine(text, c02MapFn, "loc")
		case 2:
			m, err = leafref.NewLeafrefMachine(text, c02MapFn)
		}
	})
	if !ok {
		vrt.Observe("panic", ptxt)
	}
	vrt.Assert(ok, id+".no-panic")
	if !ok {
		return
	}
	vrt.Assert((m != nil) != (err != nil), id+".machine-xor-error")
	if err != nil && len(text) > 0 {
		checkErrorText(err.Error(), text, id)
	}
	if err != nil && len(text) == 0 {
		vrt.Reach("c05.empty-expression-rejected")
	}
	if m != nil {
		vrt.Reach("c05.accepted")
	}
}

var grammarNames = []string{"expr", "path_eval", "leafref"}

// VerifH_C05_CompileBytes: arbitrary byte strings of length 0..N through each of the
// three compilers.
func VerifH_C05_CompileBytes() {
	N := vrt.Param("N", 2)
	g := vrt.Param("grammar", 0)
	n := vrt.Choice("len", N+1)
	text := string(vrt.Bytes("s", n))
	// known finding: an operator character that must be followed by '=' (or a ':' that
	// must be followed by ':') directly followed by invalid UTF-8 makes CreateProgram
	// slice with a negative index
	bs := []byte(text)
	peekThenBadUTF8 := false
	for k := 0; k+1 < len(bs); k++ {
		c := bs[k]
		lead := vrt.Or(c == ':', vrt.Or(c == '>', vrt.Or(c == '<', vrt.Or(c == '!', vrt.Or(c == '/', c == '.')))))
		if lead {
			r, sz := utf8.DecodeRune(bs[k+1:])
			if r == utf8.RuneError && sz == 1 {
				peekThenBadUTF8 = true
			}
		}
	}
	vrt.Class("C05-lookahead-char-then-invalid-utf8-panics-in-CreateProgram", peekThenBadUTF8)
	vrt.Reach("c05.compile." + grammarNames[g] + ".len" + strconv.Itoa(n))
	compileTotal(g, text, "c05.compile["+grammarNames[g]+"]")
}

var _ = strings.Contains

// VerifH_C05_RunFaults: machines from the C02 shape family run on a data tree whose
// k-th callback fails; the result must carry that error (or a value when nothing failed).
func VerifH_C05_RunFaults() {
	texts := []string{"a", "/a/b", "a[k = ../x]/b", "current()/../x", "deref(l)/a", "a[k='v'][m = current()/../x]", "concat(a, b)", "a = b", "a + 1", "not(a) and b",
		"string-length(a/b)", "number(a) + number(../b)", "boolean(a/b) or c", "substring(a, 1, 2) = b",
		"starts-with(a, ../b)", "a[k = current()/a]/b = ../c", "normalize-space(a) != translate(b, 'x', 'y')", "re-match(a, b)", "deref(l)/../a > 1"}
	ti := vrt.Choice("expr", len(texts))
	text := texts[ti]
	failAt := vrt.Choice("failAt", 8) // 0 = no failure
	m, err := NewExprMachine(text, c02MapFn)
	if err != nil {
		vrt.Assert(false, "c05.run.template-compiles")
		return
	}
	t := &mockTree{deflt: xpath.NewLiteralDatum("1"), failAt: failAt}
	var res *xpath.Result
	ok, ptxt := vrt.NoPanic(func() {
		res = xpath.NewCtxFromCurrent(nil, m, t.root()).Run()
	})
	if !ok {
		vrt.Observe("panic", ptxt)
	}
	vrt.Assert(ok, "c05.run.no-panic")
	if !ok {
		return
	}
	vrt.Reach("c05.run." + strconv.Itoa(ti))
	rerr := res.GetError()
	if t.failed {
		vrt.Reach("c05.run.fault-injected")
		vrt.Assert(rerr != nil, "c05.run.fault-yields-error")
		if rerr != nil {
			vrt.Observe("run-error", text, rerr.Error())
			// known finding: after a failed callback the machine keeps running and the
			// follow-up 'Stack underflow' (or index panic) overwrites the data-tree error
			vrt.Class("C05-data-tree-error-replaced-by-internal-error", true)
			vrt.Assert(strings.Contains(rerr.Error(), "injected-data-tree-failure"), "c05.run.error-carries-data-tree-error")
			vrt.Class("C05-data-tree-error-replaced-by-internal-error", false)
			_, e1 := res.GetBoolResult()
			_, e2 := res.GetNumResult()
			_, e3 := res.GetLiteralResult()
			vrt.Assert(e1 != nil && e2 != nil && e3 != nil, "c05.run.accessors-return-error-first")
		}
	} else {
		if rerr != nil {
			vrt.Observe("unexpected-run-error", text, rerr.Error())
		}
		vrt.Assert(rerr == nil, "c05.run.no-fault-no-error")
		if rerr == nil {
			_, e1 := res.GetLiteralResult()
			vrt.Assert(e1 == nil, "c05.run.value-present")
		}
	}
}


// every way an expression can end: well-formed expressions cut at every byte position,
// optionally continued by up to two arbitrary bytes, through the three compilers.
var c05Texts = []string{
	"/a/b[k = 'v'][m = current()/../x] != 3.5 and not(starts-with(../p:c, \"q\"))",
	"deref(current()/../l)/../a[k = concat('x', ../y)]/b",
	"../a/p:b[p:k = current()/../x]/c",
}

func VerifH_C05_Truncations() {
	g := vrt.Param("grammar", 0)
	t := c05Texts[vrt.Choice("text", len(c05Texts))]
	cut := vrt.Choice("cut", len(t)+1)
	extra := vrt.Choice("extra", vrt.Param("extra", 1)+1)
	text := t[:cut] + string(vrt.Bytes("x", extra))
	vrt.Reach("c05.truncations." + grammarNames[g])
	compileTotal(g, text, "c05.cut["+grammarNames[g]+"]")
}

// VerifH_C05_CustomFns: the path_eval constructor that hands unknown function names to a
// caller-supplied checker, followed by further compiles: every constructor call must
// return (machine xor error) — also the ones AFTER a call that went through the checker.
func VerifH_C05_CustomFns() {
	known := vrt.Bool("checker-knows-the-function")
	checker := func(name string) (*xpath.Symbol, bool) {
		if known && name == "my-fn" {
			return xpath.NewDummyFnSym(name), true
		}
		return nil, false
	}
	first := []string{"my-fn(a)", "other-fn(a) = 1", "count(a) + my-fn(b)", "my-fn(a) and other-fn(b)"}[vrt.Choice("first", 4)]
	var m1, m2, m3 *xpath.Machine
	var e1, e2, e3 error
	ok, ptxt := vrt.NoPanic(func() {
		m1, e1 = path_eval.NewPathEvalMachineWithCustomFns(first, c02MapFn, "loc", checker)
		m2, e2 = NewExprMachine("count(a) > 0", c02MapFn)
		m3, e3 = path_eval.NewPathEvalMachineWithCustomFns("not(a)", c02MapFn, "loc", checker)
	})
	vrt.Reach("c05.customfns")
	if !ok {
		vrt.Observe("panic", ptxt)
	}
	vrt.Assert(ok, "c05.customfns.no-panic")
	if !ok {
		return
	}
	vrt.Assert((m1 != nil) != (e1 != nil), "c05.customfns.first.machine-xor-error")
	vrt.Assert(m2 != nil && e2 == nil, "c05.customfns.later-compile-unaffected")
	vrt.Assert(m3 != nil && e3 == nil, "c05.customfns.later-custom-compile-unaffected")
}
