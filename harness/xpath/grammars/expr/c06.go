package expr

// C06 — compiled machines are immutable and safe under concurrency.
//
// Schedules are not enumerated.  Two sufficient conditions are checked on every
// symbolic path: (1) history independence — a machine run, then unrelated compiling and
// running, then the same machine run again on an equal tree gives the same result and
// the same requests; (2) no shared mutation — after vrt.Freeze(machine) (which marks
// everything reachable from the machine and the xpath package variables) a run must not
// store into any frozen object.  Natively (replay / validation) the harness additionally
// runs the machine from several goroutines while others compile.

import (
	"strconv"
	"sync"

	"github.com/sdcio/yang-parser/vrt"
	"github.com/sdcio/yang-parser/xpath"
)

var c06Templates = []string{
	"a + b * 2",
	"a = b or not(a)",
	"concat(a, 'x') = b",
	"substring-before(a, b)",
	"translate(a, 'ab', 'ba')",
	"a[k = ../x]/b",
	"current()/../x = a",
	"deref(l)/a",
	"re-match(a, '[a-c]+')",
	"re-match(a, '(?=x)y')",
	"starts-with(normalize-space(a), b)",
	"/a/b[k='v'][m = current()/../x] != 3",
}

func c06Run(m *xpath.Machine, vals map[string]xpath.Datum) string {
	t := &mockTree{vals: vals, deflt: xpath.NewLiteralDatum("d")}
	res := xpath.NewCtxFromCurrent(nil, m, t.root()).Run()
	out := ""
	for _, l := range t.log {
		out += l + "\n"
	}
	if e := res.GetError(); e != nil {
		return out + "error: " + e.Error()
	}
	b, _ := res.GetBoolResult()
	s, _ := res.GetLiteralResult()
	return out + strconv.FormatBool(b) + "|" + s + "|" + strconv.FormatBool(res.IsNumber())
}

// a machine with several operands (so that a data-tree failure can strike after some of
// them have been evaluated)
var c06Other, _ = NewExprMachine("/sys/a + /sys/b = /sys/c", c02MapFn)

// VerifH_C06_History
func VerifH_C06_History() {
	ti := vrt.Choice("template", len(c06Templates))
	text := c06Templates[ti]
	// operand values: symbolic lower-case strings (the same for both runs)
	av := lowerString("a", 1+vrt.Choice("alen", 2))
	bv := lowerString("b", 1)
	vals := map[string]xpath.Datum{"a": xpath.NewLiteralDatum(av), "b": xpath.NewLiteralDatum(bv), "x": xpath.NewLiteralDatum("k")}
	m, err := NewExprMachine(text, c02MapFn)
	if err != nil {
		vrt.Assert(false, "c06.template-compiles")
		return
	}
	vrt.Reach("c06.history." + strconv.Itoa(ti))
	vrt.Freeze(m)
	r1 := c06Run(m, vals)
	writes := vrt.FrozenWrites()
	vrt.Thaw()
	// unrelated activity: another compile, another run, a failing compile
	other := c06Templates[(ti+5)%len(c06Templates)]
	if m2, e2 := NewExprMachine(other, c02MapFn); e2 == nil {
		c06Run(m2, map[string]xpath.Datum{"a": xpath.NewNumDatum(1)})
	}
	NewExprMachine("a +", c02MapFn)
	// runs that FAIL in the data tree (of this machine and of another one), at a
	// solver-chosen callback: a failed run must leave nothing behind either
	failAt := 1 + vrt.Choice("failAt", 4)
	for _, fm := range []*xpath.Machine{m, c06Other} {
		if fm != nil {
			tf := &mockTree{vals: vals, deflt: xpath.NewLiteralDatum("d"), failAt: failAt}
			xpath.NewCtxFromCurrent(nil, fm, tf.root()).Run()
		}
	}
	r2 := c06Run(m, vals)
	r3 := c06Run(m, vals)
	vrt.Observe("r1", r1)
	vrt.Assert(vrt.StrEq(r1, r2), "c06.second-run-equals-first")
	vrt.Assert(vrt.StrEq(r1, r3), "c06.third-run-equals-first")

	defer func() {
		// checked last: natively this monitor is inert, so a failure here is only
		// confirmed by the goroutine stress below (race detector / differing result)
		vrt.Assert(writes == 0, "monitor.c06.run-does-not-write-shared-state")
	}()
	if !vrt.Symbolic() {
		// native confirmation only: concurrent runs and compiles (meaningful under -race)
		var wg sync.WaitGroup
		bad := make([]bool, 6)
		for g := 0; g < 4; g++ {
			wg.Add(1)
			go func(g int) {
				defer wg.Done()
				for i := 0; i < 50; i++ {
					if c06Run(m, vals) != r1 {
						bad[g] = true
					}
				}
			}(g)
		}
		for g := 4; g < 6; g++ {
			wg.Add(1)
			go func(g int) {
				defer wg.Done()
				for i := 0; i < 50; i++ {
					if _, e := NewExprMachine(c06Templates[(i+g)%len(c06Templates)], c02MapFn); e != nil {
						bad[g] = true
					}
				}
			}(g)
		}
		wg.Wait()
		okAll := true
		for _, b := range bad {
			if b {
				okAll = false
			}
		}
		vrt.Assert(okAll, "c06.concurrent-runs-equal-sequential-result")
	}
}

// VerifH_C06_Compile: compiling while other compiles are in flight.  Sufficient
// conditions decided on every path: (a) the generated parser is re-entrant — the
// program compiled for an expression is the same before and after other compiles,
// including a failing one; (b) lock-set discipline — every package-level location of
// the xpath packages that is written during a compile (lazy plug-in loading, function
// table) is accessed under a common lock at every read and write.  Natively the harness
// starts with concurrent compiles from several goroutines (meaningful under -race:
// the very first compile of the process loads the plug-ins).
func VerifH_C06_Compile() {
	vrt.Freeze()
	if !vrt.Symbolic() {
		var wg sync.WaitGroup
		for g := 0; g < 6; g++ {
			wg.Add(1)
			go func(g int) {
				defer wg.Done()
				for i := 0; i < 30; i++ {
					NewExprMachine(c06Templates[(i+g)%len(c06Templates)], c02MapFn)
				}
			}(g)
		}
		wg.Wait()
	}
	ti := vrt.Choice("template", len(c06Templates))
	tj := vrt.Choice("other", len(c06Templates))
	m1, e1 := NewExprMachine(c06Templates[ti], c02MapFn)
	m2, e2 := NewExprMachine(c06Templates[tj], c02MapFn)
	_, e3 := NewExprMachine("a + (", c02MapFn)
	m1b, e1b := NewExprMachine(c06Templates[ti], c02MapFn)
	vrt.Reach("c06.compile")
	if e1 != nil || e2 != nil || e1b != nil || e3 == nil {
		vrt.Assert(false, "c06.compile.verdicts")
		return
	}
	vrt.Assert(m1.PrintMachine() == m1b.PrintMachine(), "c06.compile.same-program-after-other-compiles")
	vals := map[string]xpath.Datum{"a": xpath.NewLiteralDatum("ab"), "b": xpath.NewLiteralDatum("b"), "x": xpath.NewLiteralDatum("k")}
	vrt.Assert(c06Run(m1, vals) == c06Run(m1b, vals), "c06.compile.same-result-after-other-compiles")
	_ = m2
	unlocked := vrt.LocksetViolations()
	vrt.Assert(unlocked == 0, "monitor.c06.shared-state-accessed-under-a-common-lock")
}
