package expr

import (
	"fmt"
	"strings"

	"github.com/sdcio/yang-parser/vrt"
	"github.com/sdcio/yang-parser/xpath"
)

// VerifH_Smoke0: engine self-test without repo code.
func VerifH_Smoke0() {
	a := vrt.Byte("a")
	b := vrt.Byte("b")
	s := 0
	if a < 10 {
		s += 1
	}
	if b > 200 {
		s += 2
	}
	x := int(a) + int(b)
	vrt.Assert(x >= int(a), "sum-monotone")
	vrt.Assert(a+b >= a, "byte-sum-wraps") // violated: wrap-around
	str := string([]byte{a, 'x', b})
	vrt.Observe("str", str, s, strings.Contains(str, "xy"))
	vrt.Observe("fmt", fmt.Sprintf("%s|%d|%q", str, s, str))
}

// VerifH_Smoke1: compile and run a concrete expression.
func VerifH_Smoke1() {
	m, err := NewExprMachine("1 + 2 * 3", nil)
	if err != nil {
		vrt.Observe("err", err.Error())
		return
	}
	res := xpath.NewCtxFromMach(m, nil).Run()
	n, e := res.GetNumResult()
	vrt.Observe("num", n, e == nil)
	vrt.Assert(n == 7, "seven")
}

// VerifH_SmokeLib: library idioms that seeded refactorings tend to introduce; every
// observation is compared with the native run by the differential validation.
func VerifH_SmokeLib() {
	c := vrt.Byte("c")
	vrt.Assume(vrt.Or(c == ' ', vrt.Or(c == 'a', c == '.')))
	s := "1 " + string([]byte{c}) + "..2\t|x"
	vrt.Observe("replacer", strings.NewReplacer(" ", "", "\t", "", "\n", "").Replace(s))
	vrt.Observe("replacer2", strings.NewReplacer("..", "-", "a", "bb").Replace(s))
	lo, hi, found := strings.Cut(s, "..")
	vrt.Observe("cut", lo, hi, found)
	vrt.Observe("fields", strings.Join(strings.Fields(s), ","))
	vrt.Observe("trim", strings.TrimSpace(" "+s+" "), strings.TrimLeft(s, "1 "), strings.TrimSuffix(s, "|x"))
	vrt.Observe("split", len(strings.SplitN(s, ".", 2)), strings.LastIndex(s, "."), strings.ContainsAny(s, "a|"))
	vrt.Observe("map", strings.Map(func(r rune) rune {
		if r == ' ' {
			return -1
		}
		return r
	}, s), strings.ToUpper(s), strings.EqualFold(s, strings.ToUpper(s)))
	var b strings.Builder
	b.WriteString(s)
	b.WriteByte(c)
	vrt.Observe("builder", b.String(), b.Len())
}
