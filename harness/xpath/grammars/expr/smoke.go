package expr

import (
	"fmt"
	"strings"

	"github.com/sdcio/yang-parser/vrt"
	"github.com/sdcio/yang-parser/xpath"
)

// VerifH_Smoke0: engine self-test without repo code.
func VerifH_Smoke0() {
	a := vrt.Byte("a")
	b := vrt.Byte("b")
	s := 0
	if a < 10 {
		s += 1
	}
	if b > 200 {
		s += 2
	}
	x := int(a) + int(b)
	vrt.Assert(x >= int(a), "sum-monotone")
	vrt.Assert(a+b >= a, "byte-sum-wraps") // violated: wrap-around
	str := string([]byte{a, 'x', b})
	vrt.Observe("str", str, s, strings.Contains(str, "xy"))
	vrt.Observe("fmt", fmt.Sprintf("%s|%d|%q", str, s, str))
}

// VerifH_Smoke1: compile and run a concrete expression.
func VerifH_Smoke1() {
	m, err := NewExprMachine("1 + 2 * 3", nil)
	if err != nil {
		vrt.Observe("err", err.Error())
		return
	}
	res := xpath.NewCtxFromMach(m, nil).Run()
	n, e := res.GetNumResult()
	vrt.Observe("num", n, e == nil)
	vrt.Assert(n == 7, "seven")
}
