package expr

// C01 — string functions of XPath 1.0 §4.2 against their definitions.

import (
	"math"

	"github.com/sdcio/yang-parser/vrt"
	"github.com/sdcio/yang-parser/xpath"
)

// specContainsAt: does b occur in a at offset k (no forks).
func specOccursAt(a, b string, k int) bool {
	if k+len(b) > len(a) {
		return false
	}
	return vrt.StrEq(a[k:k+len(b)], b)
}

func specContains(a, b string) bool {
	r := false
	for k := 0; k+len(b) <= len(a); k++ {
		r = vrt.Or(r, specOccursAt(a, b, k))
	}
	return r
}

// specIndex forks: first offset at which b occurs in a, or -1.
func specIndex(a, b string) int {
	for k := 0; k+len(b) <= len(a); k++ {
		if specOccursAt(a, b, k) {
			return k
		}
	}
	return -1
}

// XPath whitespace: #x20 | #x9 | #xD | #xA
func specNormalizeSpace(s string) string {
	var out []byte
	pendingSpace := false
	for i := 0; i < len(s); i++ {
		c := s[i]
		if isXSpace(c) {
			pendingSpace = true
			continue
		}
		if pendingSpace && len(out) > 0 {
			out = append(out, ' ')
		}
		pendingSpace = false
		out = append(out, c)
	}
	return string(out)
}

func specTranslate(s, from, to string) string {
	var out []byte
	for i := 0; i < len(s); i++ {
		c := s[i]
		k := -1
		for j := 0; j < len(from); j++ {
			if from[j] == c {
				k = j
				break
			}
		}
		switch {
		case k < 0:
			out = append(out, c)
		case k < len(to):
			out = append(out, to[k])
		}
	}
	return string(out)
}

// specSubstring: characters whose position i (1-based) satisfies
// i >= round(p) and i < round(p) + round(n)   (XPath 1.0 §4.2, IEEE comparisons).
func specSubstring(s string, p, n float64) string {
	rp, rn := specRound(p), specRound(n)
	end := rp + rn
	var out []byte
	for i := 0; i < len(s); i++ {
		pos := float64(i + 1)
		if vrt.And(pos >= rp, pos < end) {
			out = append(out, s[i])
		}
	}
	return string(out)
}

var strKinds = []int{kBool, kNum, kLit, kAbsent}

// VerifH_C01_StrFuncs1: one- and two-argument string functions.
func VerifH_C01_StrFuncs() {
	L := vrt.Param("L", 2)
	f := vrt.Choice("f", 9)
	a := genOperand("a", strKinds, numPrintable, L)
	vals := map[string]xpath.Datum{"a": a.datum()}
	sa := a.specStr()
	expo := func(o operand) bool {
		return o.kind == kNum && !vrt.IsNaN(o.n) && o.n != 0 && (math.Abs(o.n) >= 1e6 || math.Abs(o.n) < 1e-4) && o.n != math.Inf(1) && o.n != math.Inf(-1)
	}
	var b operand
	var sb string
	if f >= 2 && f <= 6 {
		b = genOperand("b", strKinds, numPrintable, L)
		vals["b"] = b.datum()
		sb = b.specStr()
	}
	// known finding: string(number) switches to exponent notation (Go %v) for
	// |x| >= 1e6 and 0 < |x| < 1e-4, XPath requires plain decimal notation
	vrt.Class("C01-number-to-string-uses-exponent-notation", expo(a) || expo(b))
	switch f {
	case 0:
		vrt.Reach("c01.str.string")
		r, ok := runTemplate("string(a)", vals)
		if ok {
			expectStr(r, sa, "c01.str[string(a)]")
		}
	case 1:
		vrt.Reach("c01.str.string-length")
		r, ok := runTemplate("string-length(a)", vals)
		if ok {
			expectNum(r, float64(len(sa)), "c01.str[string-length(a)]")
		}
	case 2:
		vrt.Reach("c01.str.concat")
		r, ok := runTemplate("concat(a, b)", vals)
		if ok {
			expectStr(r, sa+sb, "c01.str[concat(a,b)]")
		}
	case 3:
		vrt.Reach("c01.str.contains")
		r, ok := runTemplate("contains(a, b)", vals)
		if ok {
			expectBool(r, specContains(sa, sb), "c01.str[contains(a,b)]")
		}
	case 4:
		vrt.Reach("c01.str.starts-with")
		r, ok := runTemplate("starts-with(a, b)", vals)
		if ok {
			expectBool(r, specOccursAt(sa, sb, 0), "c01.str[starts-with(a,b)]")
		}
	case 5:
		vrt.Reach("c01.str.substring-before")
		want := ""
		if k := specIndex(sa, sb); k >= 0 {
			want = sa[:k]
		}
		r, ok := runTemplate("substring-before(a, b)", vals)
		if ok {
			expectStr(r, want, "c01.str[substring-before(a,b)]")
		}
	case 6:
		vrt.Reach("c01.str.substring-after")
		want := ""
		if k := specIndex(sa, sb); k >= 0 {
			want = sa[k+len(sb):]
		}
		r, ok := runTemplate("substring-after(a, b)", vals)
		if ok {
			expectStr(r, want, "c01.str[substring-after(a,b)]")
		}
	case 7:
		vrt.Reach("c01.str.normalize-space")
		want := specNormalizeSpace(sa)
		// known findings: the result of an all-blank argument crashes the function;
		// vertical tab and form feed are treated as white space
		vrt.Class("C01-normalize-space-of-blank-string-is-run-error", len(want) == 0)
		hasVTFF := false
		for i := 0; i < len(sa); i++ {
			hasVTFF = vrt.Or(hasVTFF, vrt.Or(sa[i] == 0x0b, sa[i] == 0x0c))
		}
		vrt.Class("C01-normalize-space-treats-VT-FF-as-blank", hasVTFF)
		r, ok := runTemplate("normalize-space(a)", vals)
		if ok {
			expectStr(r, want, "c01.str[normalize-space(a)]")
		}
	case 8:
		// non-ASCII content: one two-byte character, concrete
		vrt.Reach("c01.str.non-ascii")
		vals["a"] = xpath.NewLiteralDatum("hé")
		vrt.Class("C01-string-length-and-substring-count-bytes", true)
		r, ok := runTemplate("string-length(a)", vals)
		if ok {
			expectNum(r, 2, "c01.str[string-length(non-ascii)]")
		}
	}
}

// VerifH_C01_Translate: translate(a, b, c) with literal operands.
func VerifH_C01_Translate() {
	L := vrt.Param("L", 2)
	lit := []int{kLit}
	a := genOperand("a", lit, numPrintable, L)
	b := genOperand("b", lit, numPrintable, L)
	c := genOperand("c", lit, numPrintable, L)
	want := specTranslate(a.s, b.s, c.s)
	// known finding: replacements are applied sequentially, so a character produced by
	// an earlier replacement is translated again by a later one; and a 'from' character
	// that is repeated ... (first occurrence wins in both, fine)
	chained := false
	for i := 0; i < len(b.s) && i < len(c.s); i++ {
		for j := i + 1; j < len(b.s); j++ {
			chained = vrt.Or(chained, c.s[i] == b.s[j])
		}
	}
	vrt.Class("C01-translate-applies-replacements-sequentially", chained)
	vrt.Reach("c01.translate")
	r, ok := runTemplate("translate(a, b, c)", map[string]xpath.Datum{"a": a.datum(), "b": b.datum(), "c": c.datum()})
	if ok {
		expectStr(r, want, "c01.str[translate(a,b,c)]")
	}
}

// VerifH_C01_Substring: substring(s, p, n) with a symbolic ASCII string and symbolic
// numbers.
func VerifH_C01_Substring() {
	L := vrt.Param("L", 2)
	l := vrt.Choice("len", L+1)
	s := asciiString("s", l)
	p := halfOrSpecial("p")
	n := halfOrSpecial("n")
	want := specSubstring(s, p, n)
	// known finding: positions are rounded with trunc(x+0.5) converted to int, which
	// differs from round() for negative halves, NaN, infinities and huge values
	odd := func(x float64) bool {
		return vrt.Or(vrt.IsNaN(x), vrt.Or(x < 0, vrt.Or(x >= 4503599627370496.0, vrt.And(x > 0.49999999999999989, x < 0.5))))
	}
	vrt.Class("C01-substring-position-rounding", vrt.Or(odd(p), odd(n)))
	vrt.Reach("c01.substring")
	r, ok := runTemplate("substring(a, b, c)", map[string]xpath.Datum{"a": xpath.NewLiteralDatum(s), "b": xpath.NewNumDatum(p), "c": xpath.NewNumDatum(n)})
	if ok {
		expectStr(r, want, "c01.str[substring(a,b,c)]")
	}
}

var _ = math.Floor

// halfOrSpecial: NaN, ±Infinity, or k/2 for a symbolic integer -12 <= k <= 12 (covers
// every rounding case of positions around a string of <= 4 characters).
func halfOrSpecial(name string) float64 {
	switch vrt.Choice(name+".cls", 4) {
	case 0:
		return math.NaN()
	case 1:
		return math.Inf(1)
	case 2:
		return math.Inf(-1)
	}
	k := vrt.Int32(name + ".k")
	vrt.Assume(vrt.And(k >= -12, k <= 12))
	return float64(k) * 0.5
}
