package schema

// C16 — type validation accepts exactly the YANG value space.

import (
	"encoding/xml"
	"regexp"
	"strconv"

	"github.com/danos/mgmterror"
	"github.com/danos/utils/pathutil"
	"github.com/sdcio/yang-parser/vrt"
)

type c16Ctx struct{}

func (c16Ctx) ErrorHelpText() []string    { return nil }
func (c16Ctx) AllowIncompletePaths() bool { return false }

var c16Path = []string{"top", "leaf"}

func checkRejection(err error, msg, tag string, id string) {
	me, ok := err.(*mgmterror.InvalidValueApplicationError)
	vrt.Assert(ok, id+".error-type")
	if !ok {
		return
	}
	vrt.Assert(me.Path == pathutil.Pathstr(c16Path), id+".error-carries-path")
	if msg != "" {
		vrt.Assert(me.Message == msg, id+".custom-error-message")
	}
	if tag != "" {
		vrt.Assert(me.AppTag == tag, id+".custom-app-tag")
	}
}

func widthOf(k int) BitWidth { return []BitWidth{BitWidth8, BitWidth16, BitWidth32, BitWidth64}[k] }

func intLimits(w BitWidth) (int64, int64) {
	switch w {
	case BitWidth8:
		return -128, 127
	case BitWidth16:
		return -32768, 32767
	case BitWidth32:
		return -2147483648, 2147483647
	}
	return -9223372036854775808, 9223372036854775807
}

func uintLimit(w BitWidth) uint64 {
	switch w {
	case BitWidth8:
		return 255
	case BitWidth16:
		return 65535
	case BitWidth32:
		return 4294967295
	}
	return 18446744073709551615
}

// digits renders D symbolic decimal digits and returns text and value (D <= 9).
func digits(name string, D int) (string, int64) {
	bs := vrt.Bytes(name, D)
	var v int64
	for _, c := range bs {
		vrt.Assume(vrt.And(c >= '0', c <= '9'))
		v = v*10 + int64(c-'0')
	}
	return string(bs), v
}

// VerifH_C16_Integer: signed types, 0..2 symbolic ranges, sign + D symbolic digits.
func VerifH_C16_Integer() {
	D := vrt.Param("D", 4)
	w := widthOf(vrt.Choice("width", 4))
	lo, hi := intLimits(w)
	nr := vrt.Choice("nranges", 3)
	var rbs []Rb
	var prevEnd int64
	for i := 0; i < nr; i++ {
		s, e := vrt.Int64("r"+strconv.Itoa(i)+".start"), vrt.Int64("r"+strconv.Itoa(i)+".end")
		vrt.Assume(vrt.And(s >= lo, vrt.And(e <= hi, s <= e)))
		if i > 0 {
			vrt.Assume(s > prevEnd)
		}
		prevEnd = e
		rbs = append(rbs, Rb{Start: s, End: e})
	}
	msg, tag := "", ""
	if vrt.Bool("custom") {
		msg, tag = "custom message", "custom-tag"
	}
	typ := NewInteger(w, xml.Name{Local: "int"}, rbs, msg, tag, "", false)
	sign := vrt.Choice("sign", 3) // none, '-', '+'
	d := 1 + vrt.Choice("ndigits", D)
	text, v := digits("d", d)
	switch sign {
	case 1:
		text, v = "-"+text, -v
	case 2:
		text = "+" + text
	}
	want := false
	if nr == 0 {
		want = vrt.And(v >= lo, v <= hi)
	} else {
		for _, r := range rbs {
			want = vrt.Or(want, vrt.And(v >= r.Start, v <= r.End))
		}
	}
	vrt.Reach("c16.integer.w" + strconv.Itoa(int(w)))
	err := typ.Validate(c16Ctx{}, c16Path, text)
	vrt.Observe("verdict", text, err == nil)
	vrt.Assert(vrt.Iff(err == nil, want), "c16.integer.verdict")
	if err != nil {
		checkRejection(err, msg, tag, "c16.integer")
	}
}

// VerifH_C16_Uinteger: unsigned types.
func VerifH_C16_Uinteger() {
	D := vrt.Param("D", 4)
	w := widthOf(vrt.Choice("width", 4))
	hi := uintLimit(w)
	nr := vrt.Choice("nranges", 3)
	var rbs []Urb
	var prevEnd uint64
	for i := 0; i < nr; i++ {
		s, e := vrt.Uint64("r"+strconv.Itoa(i)+".start"), vrt.Uint64("r"+strconv.Itoa(i)+".end")
		vrt.Assume(vrt.And(e <= hi, s <= e))
		if i > 0 {
			vrt.Assume(s > prevEnd)
		}
		prevEnd = e
		rbs = append(rbs, Urb{Start: s, End: e})
	}
	typ := NewUinteger(w, xml.Name{Local: "uint"}, rbs, "", "", "", false)
	d := 1 + vrt.Choice("ndigits", D)
	text, sv := digits("d", d)
	v := uint64(sv)
	want := false
	if nr == 0 {
		want = v <= hi
	} else {
		for _, r := range rbs {
			want = vrt.Or(want, vrt.And(v >= r.Start, v <= r.End))
		}
	}
	vrt.Reach("c16.uinteger.w" + strconv.Itoa(int(w)))
	err := typ.Validate(c16Ctx{}, c16Path, text)
	vrt.Assert(vrt.Iff(err == nil, want), "c16.uinteger.verdict")
	if err != nil {
		checkRejection(err, "", "range-violation", "c16.uinteger")
	}
}

// VerifH_C16_IntLexical: every byte string of <= N bytes against int8 with a range;
// lexical form: optional sign, decimal digits only (leading zeros allowed).
func VerifH_C16_IntLexical() {
	N := vrt.Param("N", 3)
	signed := vrt.Bool("signed")
	n := vrt.Choice("len", N+1)
	bs := vrt.Bytes("s", n)
	s := string(bs)
	// reference: [+-]? digit+
	i := 0
	neg := false
	hasSign := false
	if n > 0 && (bs[0] == '+' || bs[0] == '-') {
		neg = bs[0] == '-'
		hasSign = true
		i = 1
	}
	okLex := i < n
	var v int64
	for ; i < n; i++ {
		if bs[i] < '0' || bs[i] > '9' {
			okLex = false
			break
		}
		v = v*10 + int64(bs[i]-'0')
	}
	if neg {
		v = -v
	}
	var err error
	var want bool
	if signed {
		typ := NewInteger(BitWidth8, xml.Name{Local: "int8"}, []Rb{{Start: -20, End: -3}, {Start: 9, End: 20}}, "", "", "", false)
		err = typ.Validate(c16Ctx{}, c16Path, s)
		want = okLex && ((v >= -20 && v <= -3) || (v >= 9 && v <= 20))
	} else {
		typ := NewUinteger(BitWidth8, xml.Name{Local: "uint8"}, []Urb{{Start: 0, End: 0}, {Start: 9, End: 200}}, "", "", "", false)
		err = typ.Validate(c16Ctx{}, c16Path, s)
		want = okLex && !neg && (v == 0 || (v >= 9 && v <= 200))
		// a sign on an unsigned value ("+5", "-0") is unspecified
		if hasSign {
			vrt.Reach("c16.lexical.unsigned-with-sign-unspecified")
			return
		}
	}
	vrt.Reach("c16.lexical")
	vrt.Observe("verdict", s, err == nil)
	vrt.Assert((err == nil) == want, "c16.lexical.verdict")
}

// VerifH_C16_Int64Window: values within +-10^4 of the 64-bit bounds.
func VerifH_C16_Int64Window() {
	typ := NewInteger(BitWidth64, xml.Name{Local: "int64"}, nil, "", "", "", false)
	utyp := NewUinteger(BitWidth64, xml.Name{Local: "uint64"}, nil, "", "", "", false)
	which := vrt.Choice("which", 3)
	tail, tv := digits("t", 4)
	switch which {
	case 0: // near MaxInt64 = 9223372036854775807
		text := "922337203685477" + tail
		val := uint64(922337203685477)*10000 + uint64(tv)
		err := typ.Validate(c16Ctx{}, c16Path, text)
		vrt.Assert(vrt.Iff(err == nil, val <= 9223372036854775807), "c16.window.maxint64")
	case 1: // near MinInt64 = -9223372036854775808
		text := "-922337203685477" + tail
		val := uint64(922337203685477)*10000 + uint64(tv)
		err := typ.Validate(c16Ctx{}, c16Path, text)
		vrt.Assert(vrt.Iff(err == nil, val <= 9223372036854775808), "c16.window.minint64")
	case 2: // near MaxUint64 = 18446744073709551615 (prefix 1844674407370955, 4 free digits)
		text := "1844674407370955" + tail
		err := utyp.Validate(c16Ctx{}, c16Path, text)
		vrt.Assert(vrt.Iff(err == nil, tv <= 1615), "c16.window.maxuint64")
	}
	vrt.Reach("c16.window")
}

// VerifH_C16_Simple: boolean, empty, enumeration, union.
func VerifH_C16_Simple() {
	N := vrt.Param("N", 2)
	n := vrt.Choice("len", N+1)
	s := string(vrt.Bytes("s", n))
	which := vrt.Choice("type", 4)
	var typ Type
	var want bool
	switch which {
	case 0:
		typ = NewBoolean(xml.Name{Local: "boolean"}, "", false)
		want = s == "true" || s == "false"
		// longer literals need N >= 4/5: covered by the fixed probes below
	case 1:
		typ = NewEmpty(xml.Name{Local: "empty"}, "", false)
		want = s == ""
	case 2:
		typ = NewEnumeration(xml.Name{Local: "enumeration"}, []*Enum{NewEnum("a", "", "", Current, 0), NewEnum("bc", "", "", Current, 1)}, "", false)
		want = s == "a" || s == "bc"
	case 3:
		typ = NewUnion(xml.Name{Local: "union"}, []Type{
			NewUinteger(BitWidth8, xml.Name{Local: "uint8"}, []Urb{{Start: 3, End: 7}}, "", "", "", false),
			NewEnumeration(xml.Name{Local: "enumeration"}, []*Enum{NewEnum("x", "", "", Current, 0)}, "", false),
		}, "", false)
		okNum := n > 0
		var v uint64
		for i := 0; i < n; i++ {
			if s[i] < '0' || s[i] > '9' {
				okNum = false
				break
			}
			v = v*10 + uint64(s[i]-'0')
		}
		want = (okNum && v >= 3 && v <= 7) || s == "x"
	}
	vrt.Reach("c16.simple." + strconv.Itoa(which))
	err := typ.Validate(c16Ctx{}, c16Path, s)
	vrt.Observe("verdict", which, s, err == nil)
	vrt.Assert((err == nil) == want, "c16.simple.verdict")
	// fixed probes for the boolean literals
	if which == 0 && n == 0 {
		b := NewBoolean(xml.Name{Local: "boolean"}, "", false)
		vrt.Assert(b.Validate(c16Ctx{}, c16Path, "true") == nil && b.Validate(c16Ctx{}, c16Path, "false") == nil && b.Validate(c16Ctx{}, c16Path, "True") != nil && b.Validate(c16Ctx{}, c16Path, "1") != nil, "c16.simple.boolean-literals")
	}
}

// VerifH_C16_Decimal64: fraction-digits 1..2, one small symbolic range (scaled
// integers), value = sign, 1..2 integer digits, optional '.', 1..fd+1 fraction digits.
func VerifH_C16_Decimal64() {
	fd := 1 + vrt.Choice("fd", 2)
	scale := int64(10)
	if fd == 2 {
		scale = 100
	}
	// concrete range bounds (a symbolic bound would put a 64-bit floating-point division
	// into every query); the value's digits stay symbolic
	rng := [][2]int64{{-15, 25}, {5, 15}, {-499, -1}}[vrt.Choice("range", 3)]
	lo, hi := rng[0]*scale/10, rng[1]*scale/10
	typ := NewDecimal64(xml.Name{Local: "decimal64"}, Fracdigit(fd), []Drb{{Start: float64(rng[0]) / 10, End: float64(rng[1]) / 10}}, "", "", "", false)
	sign := vrt.Choice("sign", 3)
	ni := 1 + vrt.Choice("nint", vrt.Param("I", 1))
	itext, iv := digits("i", ni)
	text := itext
	scaled := iv * scale
	tooManyFrac := false
	if vrt.Bool("hasfrac") {
		nf := 1 + vrt.Choice("nfrac", fd+1)
		ftext, fv := digits("f", nf)
		text += "." + ftext
		switch {
		case nf > fd:
			tooManyFrac = true
		case nf < fd:
			scaled += fv * 10
		default:
			scaled += fv
		}
	}
	switch sign {
	case 1:
		text, scaled = "-"+text, -scaled
	case 2:
		text = "+" + text
	}
	want := vrt.And(!tooManyFrac, vrt.And(scaled >= lo, scaled <= hi))
	vrt.Reach("c16.decimal64.fd" + strconv.Itoa(fd))
	err := typ.Validate(c16Ctx{}, c16Path, text)
	vrt.Observe("verdict", text, err == nil)
	vrt.Assert(vrt.Iff(err == nil, want), "c16.decimal64.verdict")
	if err != nil {
		checkRejection(err, "", "range-violation", "c16.decimal64")
	}
}

// VerifH_C16_Probes: concrete boundary probes where the symbolic route is out of reach
// (18-digit decimal64 bounds; non-ASCII string lengths).
func VerifH_C16_Probes() {
	which := vrt.Choice("probe", 4)
	switch which {
	case 0:
		// explicit 18-digit range compared exactly?
		typ := NewDecimal64(xml.Name{Local: "decimal64"}, 1, []Drb{{Start: 0, End: 922337203685477580.5}}, "", "", "", false)
		vrt.Class("C16-decimal64-ranges-compared-as-float64", true)
		vrt.Assert(typ.Validate(c16Ctx{}, c16Path, "922337203685477580.6") != nil, "c16.probe.decimal64-18-digit-range-exact")
		vrt.Class("C16-decimal64-ranges-compared-as-float64", false)
		vrt.Assert(typ.Validate(c16Ctx{}, c16Path, "922337203685477580.5") == nil, "c16.probe.decimal64-18-digit-range-end-accepted")
	case 1:
		// 64-bit bounds of the default range
		typ := NewDecimal64(xml.Name{Local: "decimal64"}, 1, nil, "", "", "", false)
		vrt.Assert(typ.Validate(c16Ctx{}, c16Path, "922337203685477580.7") == nil, "c16.probe.decimal64-max-accepted")
		vrt.Assert(typ.Validate(c16Ctx{}, c16Path, "922337203685477580.8") != nil, "c16.probe.decimal64-max-plus-one-rejected")
		vrt.Assert(typ.Validate(c16Ctx{}, c16Path, "-922337203685477580.8") == nil, "c16.probe.decimal64-min-accepted")
		vrt.Assert(typ.Validate(c16Ctx{}, c16Path, "-922337203685477580.9") != nil, "c16.probe.decimal64-min-minus-one-rejected")
	case 2:
		// string length is counted in characters
		typ := NewString(xml.Name{Local: "string"}, nil, nil, &Length{Lbs: []Lb{{Start: 2, End: 3}}}, "", false)
		vrt.Class("C16-string-length-counts-bytes", true)
		vrt.Assert(typ.Validate(c16Ctx{}, c16Path, "é") != nil, "c16.probe.one-two-byte-character-has-length-1")
		vrt.Assert(typ.Validate(c16Ctx{}, c16Path, "éé") == nil, "c16.probe.two-two-byte-characters-have-length-2")
		vrt.Class("C16-string-length-counts-bytes", false)
	case 3:
		// ASCII lengths, symbolic content
		n := vrt.Choice("len", 5)
		s := string(vrt.Bytes("s", n))
		for i := 0; i < n; i++ {
			vrt.Assume(s[i] < 0x80)
		}
		typ := NewString(xml.Name{Local: "string"}, nil, nil, &Length{Lbs: []Lb{{Start: 2, End: 3}}}, "", false)
		err := typ.Validate(c16Ctx{}, c16Path, s)
		vrt.Assert((err == nil) == (n >= 2 && n <= 3), "c16.probe.ascii-length")
		if err != nil {
			checkRejection(err, "", "length-violation", "c16.probe.length")
		}
	}
	vrt.Reach("c16.probes")
}

// VerifH_C16_Decimal64Lexical: token sentences around the decimal64 lexical form.  A
// value containing any character other than digits, '.', '+' and '-' (exponent letters
// above all: strconv.ParseFloat understands them, YANG does not) must be rejected; the
// canonical form [-]digits[.digits{1..fd}] inside the range must be accepted; the
// remaining shapes ('+' sign, leading zeros, missing integer or fraction part, several
// dots) are unspecified here.
func VerifH_C16_Decimal64Lexical() {
	K := vrt.Param("K", 5)
	fd := 2
	typ := NewDecimal64(xml.Name{Local: "decimal64"}, Fracdigit(fd), []Drb{{Start: -99.99, End: 99.99}}, "", "", "", false)
	toks := []string{"D", ".", "e", "E", "+", "-", "x", " ", "_", "0"}
	n := 1 + vrt.Choice("tokens", K)
	text := ""
	for i := 0; i < n; i++ {
		t := toks[vrt.Choice("t"+strconv.Itoa(i), len(toks))]
		if t == "D" {
			d := vrt.Byte("dig" + strconv.Itoa(i))
			vrt.Assume(vrt.Or(d == '1', d == '2')) // two digit values keep exponents small enough for the pow10 tables
			t = string([]byte{d})
		}
		text += t
	}
	foreign := false
	for i := 0; i < len(text); i++ {
		c := text[i]
		if !(c >= '0' && c <= '9') && c != '.' && c != '+' && c != '-' {
			foreign = true
		}
	}
	// canonical: [-] (0 | nonzero digits*) [. digits{1..fd}], at most two integer digits (range)
	canonical := func() bool {
		i := 0
		if i < len(text) && text[i] == '-' {
			i++
		}
		st := i
		for i < len(text) && text[i] >= '0' && text[i] <= '9' {
			i++
		}
		ni := i - st
		if ni == 0 || ni > 2 || (ni > 1 && text[st] == '0') {
			return false
		}
		if i == len(text) {
			return true
		}
		if text[i] != '.' {
			return false
		}
		i++
		sf := i
		for i < len(text) && text[i] >= '0' && text[i] <= '9' {
			i++
		}
		return i == len(text) && i-sf >= 1 && i-sf <= fd
	}()
	vrt.Reach("c16.decimal64lexical")
	err := typ.Validate(c16Ctx{}, c16Path, text)
	vrt.Observe("verdict", text, err == nil)
	switch {
	case foreign:
		vrt.Assert(err != nil, "c16.decimal64lexical.foreign-character-rejected")
	case canonical:
		vrt.Assert(err == nil, "c16.decimal64lexical.canonical-form-accepted")
	default:
		vrt.Reach("c16.decimal64lexical.unspecified")
	}
}

// VerifH_C16_TwoRejections: the SAME type object rejects two values at two different
// paths; both errors are kept.  Each must carry the path of its own value and keep its
// message and app-tag after the other validation has run (an error is a value handed
// to the caller, not a buffer the type reuses).
func VerifH_C16_TwoRejections() {
	which := vrt.Choice("rejecting-type", 8)
	custom := vrt.Bool("custom-message")
	msg, tag := "", ""
	if custom {
		msg, tag = "custom message", "custom-tag"
	}
	var typ Type
	bad := [2]string{"x", "yyyyy"}
	switch which {
	case 0:
		typ = NewString(xml.Name{Local: "string"}, nil, nil, &Length{Lbs: []Lb{{Start: 2, End: 3}}, Msg: msg, AppTag: tag}, "", false)
	case 1:
		re := regexp.MustCompile("^(ab*)$")
		typ = NewString(xml.Name{Local: "string"}, [][]Pattern{{{Pattern: "ab*", Regexp: re, Msg: msg, AppTag: tag}}}, [][]string{{""}}, nil, "", false)
	case 2:
		typ = NewInteger(BitWidth8, xml.Name{Local: "int8"}, []Rb{{Start: 1, End: 5}}, msg, tag, "", false)
		bad = [2]string{"0", "77"}
	case 3:
		typ = NewUinteger(BitWidth8, xml.Name{Local: "uint8"}, []Urb{{Start: 1, End: 5}}, msg, tag, "", false)
		bad = [2]string{"0", "77"}
	case 4:
		typ = NewDecimal64(xml.Name{Local: "decimal64"}, 1, []Drb{{Start: 1, End: 5}}, msg, tag, "", false)
		bad = [2]string{"0.5", "7.5"}
	case 5:
		typ = NewEnumeration(xml.Name{Local: "enumeration"}, []*Enum{NewEnum("a", "", "", Current, 0)}, "", false)
	case 6:
		typ = NewBoolean(xml.Name{Local: "boolean"}, "", false)
	case 7:
		typ = NewUnion(xml.Name{Local: "union"}, []Type{
			NewUinteger(BitWidth8, xml.Name{Local: "uint8"}, []Urb{{Start: 3, End: 7}}, msg, tag, "", false),
			NewString(xml.Name{Local: "string"}, nil, nil, &Length{Lbs: []Lb{{Start: 2, End: 3}}, Msg: msg, AppTag: tag}, "", false),
		}, "", false)
	}
	if vrt.Bool("same-value-twice") {
		bad[1] = bad[0]
	}
	p1, p2 := []string{"first", "leaf"}, []string{"second", "other", "leaf"}
	vrt.Reach("c16.tworejections." + strconv.Itoa(which))
	e1 := typ.Validate(c16Ctx{}, p1, bad[0])
	vrt.Assert(e1 != nil, "c16.tworejections.rejected")
	if e1 == nil {
		return
	}
	f1, ok := e1.(mgmterror.Formattable)
	vrt.Assert(ok, "c16.tworejections.error-type")
	if !ok {
		return
	}
	path1, msg1, tag1, text1 := f1.GetPath(), f1.GetMessage(), f1.GetAppTag(), e1.Error()
	vrt.Assert(path1 == pathutil.Pathstr(p1), "c16.tworejections.error-carries-path")
	e2 := typ.Validate(c16Ctx{}, p2, bad[1])
	vrt.Assert(e2 != nil, "c16.tworejections.rejected")
	if e2 == nil {
		return
	}
	f2 := e2.(mgmterror.Formattable)
	vrt.Observe("errors", which, custom, f1.GetPath(), f1.GetMessage(), f2.GetPath(), f2.GetMessage())
	vrt.Assert(f2.GetPath() == pathutil.Pathstr(p2), "c16.tworejections.error-carries-path")
	vrt.Assert(f1.GetPath() == path1 && f1.GetMessage() == msg1 && f1.GetAppTag() == tag1 && e1.Error() == text1,
		"c16.tworejections.earlier-error-unchanged-by-later-validation")
	if custom && which <= 4 {
		vrt.Assert(f1.GetMessage() == msg && f2.GetMessage() == msg, "c16.tworejections.custom-error-message")
		vrt.Assert(f1.GetAppTag() == tag && f2.GetAppTag() == tag, "c16.tworejections.custom-app-tag")
	}
}
