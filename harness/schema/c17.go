package schema

// C17 — schema path validation walks the tree exactly.

import (
	"encoding/xml"
	"strconv"

	"github.com/danos/mgmterror"
	"github.com/danos/utils/pathutil"
	"github.com/sdcio/yang-parser/vrt"
)

type c17Ctx struct{ incomplete bool }

func (c17Ctx) ErrorHelpText() []string      { return nil }
func (c c17Ctx) AllowIncompletePaths() bool { return c.incomplete }

const (
	c17Container = iota
	c17List
	c17Leaf
	c17LeafList
)

const (
	c17Uint = iota // uint8 1..9
	c17Str
	c17Empty
)

type c17Node struct {
	kind     int
	name     string
	presence bool
	typ      int
	children []*c17Node // choices and cases already flattened (they are transparent)
}

// the declarative description of the schema built in buildC17Schema
var c17Spec = &c17Node{kind: c17Container, presence: true, children: []*c17Node{
	{kind: c17Container, name: "c", children: []*c17Node{
		{kind: c17Leaf, name: "n", typ: c17Uint},
		{kind: c17Container, name: "p", presence: true, children: []*c17Node{{kind: c17Leaf, name: "s", typ: c17Str}}},
		{kind: c17Leaf, name: "e", typ: c17Empty},
		{kind: c17Leaf, name: "x", typ: c17Str},     // choice ch / case ca / leaf x
		{kind: c17LeafList, name: "m", typ: c17Uint}, // choice ch / case cb / leaf-list m
		{kind: c17Leaf, name: "y", typ: c17Uint},     // choice ch / case cb / choice inner / case ci / leaf y
		{kind: c17Leaf, name: "g", typ: c17Str}, // a leaf whose type carries the default "q"
		// non-presence containers that carry defaults (they "always exist", but a path
		// ending on them is still incomplete)
		{kind: c17Container, name: "d", children: []*c17Node{
			{kind: c17Leaf, name: "z", typ: c17Str},
			{kind: c17Container, name: "f", children: []*c17Node{{kind: c17Leaf, name: "w", typ: c17Str}}},
		}},
	}},
	{kind: c17List, name: "l", children: []*c17Node{
		{kind: c17Leaf, name: "k", typ: c17Uint},
		{kind: c17Leaf, name: "v", typ: c17Str},
	}},
}}

func c17Types() (Type, Type, Type) {
	u := NewUinteger(BitWidth8, xml.Name{Local: "uint8"}, []Urb{{Start: 1, End: 9}}, "", "", "", false)
	s := NewString(xml.Name{Local: "string"}, nil, nil, nil, "", false)
	e := NewEmpty(xml.Name{Local: "empty"}, "", false)
	return u, s, e
}

func buildC17Schema() Tree {
	u, s, e := c17Types()
	ns, mod := "urn:t", "t"
	leaf := func(name string, t Type) Node {
		return NewLeaf(name, ns, mod, "", "", "", "", false, t, true, Current, nil, nil)
	}
	inner, _ := NewCase("ci", ns, mod, "", "", "", true, Current, nil, []Node{leaf("y", u)})
	innerChoice, _ := NewChoice("inner", ns, mod, "", "", "", "", false, true, Current, nil, []Node{inner})
	ca, _ := NewCase("ca", ns, mod, "", "", "", true, Current, nil, []Node{leaf("x", s)})
	cb, _ := NewCase("cb", ns, mod, "", "", "", true, Current, nil, []Node{
		NewLeafList("m", ns, mod, "", "", "", "", "", "", 0, ^uint(0), u, true, Current, nil, nil), innerChoice})
	ch, _ := NewChoice("ch", ns, mod, "", "", "", "", false, true, Current, nil, []Node{ca, cb})
	p, _ := NewContainer("p", ns, mod, "", "", "", true, true, Current, nil, nil, []Node{leaf("s", s)})
	sd := NewString(xml.Name{Local: "string"}, nil, nil, nil, "q", true)
	dleafDef := func(name string) Node {
		return NewLeaf(name, ns, mod, "", "", "", "", false, sd, true, Current, nil, nil)
	}
	f, _ := NewContainer("f", ns, mod, "", "", "", false, true, Current, nil, nil, []Node{dleafDef("w")})
	d, _ := NewContainer("d", ns, mod, "", "", "", false, true, Current, nil, nil, []Node{dleafDef("z"), f})
	c, _ := NewContainer("c", ns, mod, "", "", "", false, true, Current, nil, nil, []Node{leaf("n", u), p, leaf("e", e), ch, dleafDef("g"), d})
	l, _ := NewList("l", ns, mod, "", "", "", "", 0, ^uint(0), true, Current, []string{"k"}, nil, nil, nil, []Node{leaf("k", u), leaf("v", s)})
	t, err := NewTree([]Node{c, l})
	if err != nil {
		panic(err)
	}
	return t
}

func c17TypeOK(typ int, tok string) bool {
	switch typ {
	case c17Uint:
		return len(tok) == 1 && tok[0] >= '1' && tok[0] <= '9'
	case c17Str:
		return true
	}
	return tok == ""
}

func (n *c17Node) child(name string) *c17Node {
	for _, c := range n.children {
		if c.name == name {
			return c
		}
	}
	return nil
}

func specWalk(n *c17Node, p []string, incomplete bool, root bool) bool {
	switch n.kind {
	case c17Container:
		if len(p) == 0 {
			return root || n.presence || incomplete
		}
		c := n.child(p[0])
		if c == nil {
			return false
		}
		return specWalk(c, p[1:], incomplete, false)
	case c17List:
		if len(p) == 0 {
			return incomplete
		}
		if !c17TypeOK(c17Uint, p[0]) {
			return false
		}
		p = p[1:]
		if len(p) == 0 {
			return true
		}
		c := n.child(p[0])
		if c == nil {
			return false
		}
		return specWalk(c, p[1:], incomplete, false)
	case c17Leaf:
		if len(p) == 0 {
			return n.typ == c17Empty || incomplete
		}
		if len(p) > 1 {
			return false
		}
		return c17TypeOK(n.typ, p[0])
	case c17LeafList:
		if len(p) == 0 {
			return incomplete
		}
		if len(p) > 1 {
			return false
		}
		return c17TypeOK(n.typ, p[0])
	}
	return false
}

// VerifH_C17_Paths: token paths of length 0..L, each token 0..1 symbolic bytes.
func VerifH_C17_Paths() {
	L := vrt.Param("L", 4)
	incomplete := vrt.Bool("incomplete")
	n := vrt.Choice("len", L+1)
	var p []string
	for i := 0; i < n; i++ {
		tl := vrt.Choice("tl"+strconv.Itoa(i), 2)
		p = append(p, string(vrt.Bytes("t"+strconv.Itoa(i), tl)))
	}
	t := buildC17Schema()
	want := specWalk(c17Spec, p, incomplete, true)
	vrt.Reach("c17.paths.len" + strconv.Itoa(n))
	err := t.Validate(c17Ctx{incomplete}, nil, p)
	obs := ""
	for _, s := range p {
		obs += "/" + s
	}
	vrt.Observe("verdict", obs, incomplete, err == nil)
	vrt.Assert((err == nil) == want, "c17.verdict")
	if err == nil || want {
		return
	}
	// the error identifies the first offending element
	k, kind := specOffender(c17Spec, p, 0, incomplete, true)
	f, isF := err.(mgmterror.Formattable)
	vrt.Assert(isF, "c17.error-is-a-management-error")
	if !isF {
		return
	}
	bad := ""
	for _, t := range f.GetInfo() {
		if t.XMLName.Local == "bad-element" {
			bad = t.Value
		}
	}
	vrt.Observe("error", f.GetPath(), bad, k, kind)
	switch kind {
	case offUnknown: // unknown child, or a token after the last one a leaf / leaf-list allows
		vrt.Assert(vrt.And(vrt.StrEq(f.GetPath(), pathutil.Pathstr(p[:k])), vrt.StrEq(bad, p[k])), "c17.error-names-the-first-offending-element")
	case offValue: // key or leaf value rejected by its type: the path leads to the value
		vrt.Assert(vrt.StrEq(f.GetPath(), pathutil.Pathstr(p[:k+1])), "c17.error-path-leads-to-the-rejected-value")
	case offIncomplete:
		vrt.Assert(vrt.StrEq(f.GetPath(), pathutil.Pathstr(p)), "c17.error-path-is-the-incomplete-path")
	}
}

const (
	offUnknown = iota
	offValue
	offIncomplete
	offUnspecified
)

// specOffender: index and kind of the first offending element of a rejected path.
func specOffender(n *c17Node, p []string, at int, incomplete bool, root bool) (int, int) {
	switch n.kind {
	case c17Container:
		if len(p) == 0 {
			return at, offIncomplete
		}
		c := n.child(p[0])
		if c == nil {
			return at, offUnknown
		}
		return specOffender(c, p[1:], at+1, incomplete, false)
	case c17List:
		if len(p) == 0 {
			return at, offIncomplete
		}
		if !c17TypeOK(c17Uint, p[0]) {
			return at, offValue
		}
		p, at = p[1:], at+1
		c := n.child(p[0])
		if c == nil {
			return at, offUnknown
		}
		return specOffender(c, p[1:], at+1, incomplete, false)
	default: // leaf, leaf-list
		if len(p) == 0 {
			return at, offIncomplete
		}
		if n.kind == c17Leaf && n.typ == c17Empty {
			if len(p) > 1 {
				return at, offUnspecified // which of several tokens after an empty leaf is "first offending" is not settled
			}
			return at, offUnknown // an empty leaf takes no value: the token itself is the offender
		}
		if len(p) > 1 {
			return at + 1, offUnknown
		}
		return at, offValue
	}
}
