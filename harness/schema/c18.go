package schema

// C18 — structural data validation and default decoration are exact.

import (
	"encoding/xml"
	"strconv"

	"github.com/sdcio/yang-parser/data/datanode"
	"github.com/sdcio/yang-parser/vrt"
	"github.com/sdcio/yang-parser/xpath/xutils"
)

// VerifH_C18_Cardinality: cardinalityInRange with three symbolic integers.
func VerifH_C18_Cardinality() {
	min, max := uint(vrt.Uint64("min")), uint(vrt.Uint64("max"))
	n := vrt.Int("len")
	vrt.Assume(vrt.And(n >= 0, n < 1<<40))
	vrt.Assume(max != 0) // max-elements is a positive integer or unbounded
	err := cardinalityInRange(xutils.PathType([]string{"a"}), min, max, n)
	tooFew := uint(n) < min
	tooMany := vrt.And(max != ^uint(0), uint(n) > max)
	vrt.Reach("c18.cardinality")
	vrt.Assert(vrt.Iff(err != nil, vrt.Or(tooFew, tooMany)), "c18.cardinality.verdict")
}

func c18Schema(defX string, choiceMand bool, defCase string) (Node, Node) {
	ns, mod := "urn:t", "t"
	str := func(def string, hasDef bool) Type {
		return NewString(xml.Name{Local: "string"}, nil, nil, nil, def, hasDef)
	}
	leaf := func(name string, mand bool, t Type) Node {
		return NewLeaf(name, ns, mod, "", "", "", "", mand, t, true, Current, nil, nil)
	}
	np, _ := NewContainer("np", ns, mod, "", "", "", false, true, Current, nil, nil, []Node{leaf("mm", true, str("", false)), leaf("dn", false, str("dv", true))})
	pc, _ := NewContainer("pc", ns, mod, "", "", "", true, true, Current, nil, nil, []Node{leaf("pm", true, str("", false)), leaf("dp", false, str("dv", true))})
	l, _ := NewList("l", ns, mod, "", "", "", "", 1, 2, true, Current, []string{"k"},
		[][][]xml.Name{{{{Local: "a"}}}, {{{Local: "b"}}}}, nil, nil,
		[]Node{leaf("k", false, str("", false)), leaf("a", false, str("", false)), leaf("b", false, str("", false))})
	ll := NewLeafList("ll", ns, mod, "", "", "", "", "", "", 0, 2, str("", false), true, Current, nil, nil)
	c1, _ := NewCase("c1", ns, mod, "", "", "", true, Current, nil, []Node{leaf("x", false, str(defX, defX != ""))})
	c2, _ := NewCase("c2", ns, mod, "", "", "", true, Current, nil, []Node{leaf("y", true, str("", false)), leaf("z", false, str("dz", true))})
	ch, _ := NewChoice("ch", ns, mod, "", defCase, "", "", choiceMand, true, Current, nil, []Node{c1, c2})
	top, err := NewContainer("top", ns, mod, "", "", "", true, true, Current, nil, nil,
		[]Node{leaf("m", true, str("", false)), leaf("d", false, str("dv", true)), np, pc, l, ll, ch})
	if err != nil {
		panic(err)
	}
	t, _ := NewTree([]Node{top})
	return t, top
}

func dleaf(name, val string) datanode.DataNode {
	return datanode.CreateDataNode(name, nil, []string{val})
}

// VerifH_C18_Validate: symbolic data tree against the fixed schema.
func VerifH_C18_Validate() {
	_, top := c18Schema("", true, "")
	var kids []datanode.DataNode
	viol := false

	hasM := vrt.Bool("m")
	if hasM {
		kids = append(kids, dleaf("m", "v"))
	} else {
		viol = true
	}
	// non-presence container np: mandatory mm is looked for through it
	npPresent, hasMM := vrt.Bool("np"), vrt.Bool("mm")
	if npPresent {
		var c []datanode.DataNode
		if hasMM {
			c = append(c, dleaf("mm", "v"))
		} else {
			viol = true
		}
		kids = append(kids, datanode.CreateDataNode("np", c, nil))
	} else {
		viol = true // mm missing under an existing parent (top), seen through np
	}
	// presence container pc
	if vrt.Param("lite", 0) == 0 && vrt.Bool("pc") {
		var c []datanode.DataNode
		if vrt.Bool("pm") {
			c = append(c, dleaf("pm", "v"))
		} else {
			viol = true
		}
		kids = append(kids, datanode.CreateDataNode("pc", c, nil))
	}
	// list l: 0..3 entries, min 1 max 2, unique a / unique b
	ne := vrt.Choice("entries", vrt.Param("E", 4))
	if ne < 1 || ne > 2 {
		viol = true
	}
	if ne > 0 {
		var entries []datanode.DataNode
		var as, bs []string
		for i := 0; i < ne; i++ {
			key := strconv.Itoa(i + 1)
			c := []datanode.DataNode{dleaf("k", key)}
			if vrt.Bool("a" + key) {
				v := lowerPQ("av" + key)
				c = append(c, dleaf("a", v))
				for _, o := range as {
					if o == v {
						viol = true
					}
				}
				as = append(as, v)
			}
			if vrt.Bool("b" + key) {
				v := lowerPQ("bv" + key)
				c = append(c, dleaf("b", v))
				for _, o := range bs {
					if o == v {
						viol = true
					}
				}
				bs = append(bs, v)
			}
			entries = append(entries, datanode.CreateDataNode(key, c, nil))
		}
		kids = append(kids, datanode.CreateDataNode("l", entries, nil))
	}
	// leaf-list ll: 0..3 values, max 2
	nl := vrt.Choice("llcount", 4)
	if vrt.Param("lite", 0) == 1 {
		vrt.Assume(nl == 0 || nl == 3)
	}
	if nl > 2 {
		viol = true
	}
	if nl > 0 {
		kids = append(kids, datanode.CreateDataNode("ll", nil, []string{"1", "2", "3"}[:nl]))
	}
	// mandatory choice ch: case c1 {x} | case c2 {y mandatory, z}
	which := vrt.Choice("case", 3) // 0 none, 1 c1, 2 c2
	switch which {
	case 0:
		viol = true
	case 1:
		kids = append(kids, dleaf("x", "v"))
	case 2:
		hasY, hasZ := vrt.Bool("y"), vrt.Bool("z")
		vrt.Assume(hasY || hasZ)
		if hasY {
			kids = append(kids, dleaf("y", "v"))
		} else {
			viol = true
		}
		if hasZ {
			kids = append(kids, dleaf("z", "v"))
		}
	}
	data := datanode.CreateDataNode("top", kids, nil)
	vrt.Reach("c18.validate")
	_, errs, ok := ValidateSchema(top, data, false)
	vrt.Observe("verdict", len(errs) == 0, ok)
	vrt.Assert((len(errs) > 0) == viol, "c18.validate.verdict")
	vrt.Assert(ok == (len(errs) == 0), "c18.validate.status-matches-errors")
}

func lowerPQ(name string) string {
	c := vrt.Byte(name)
	vrt.Assume(vrt.Or(c == 'p', c == 'q'))
	return string([]byte{c})
}

// ---------------------------------------------------------------- default decoration

func c18Walk(n datanode.DataNode, prefix string, out *[]string) {
	p := prefix + "/" + n.YangDataName()
	vals := n.YangDataValues()
	kids := n.YangDataChildren()
	if len(vals) == 0 && len(kids) == 0 {
		*out = append(*out, p)
	}
	for _, v := range vals {
		*out = append(*out, p+"="+v)
	}
	for _, k := range kids {
		c18Walk(k, p, out)
	}
}

func sortedJoin(xs []string) string {
	// insertion sort (tiny lists), then join
	for i := 1; i < len(xs); i++ {
		for j := i; j > 0 && xs[j] < xs[j-1]; j-- {
			xs[j], xs[j-1] = xs[j-1], xs[j]
		}
	}
	s := ""
	for _, x := range xs {
		s += x + "\n"
	}
	return s
}

// VerifH_C18_Defaults: the decorated view against the RFC rules, and idempotence.
func VerifH_C18_Defaults() {
	_, top := c18Schema("", false, "c2")
	var kids []datanode.DataNode
	var want []string
	if vrt.Bool("d") {
		v := lowerPQ("dval")
		kids = append(kids, dleaf("d", v))
		want = append(want, "/top/d="+v)
	} else {
		want = append(want, "/top/d=dv")
	}
	if vrt.Bool("m") {
		kids = append(kids, dleaf("m", "v"))
		want = append(want, "/top/m=v")
	}
	if vrt.Bool("np") {
		var c []datanode.DataNode
		if vrt.Bool("dn") {
			c = append(c, dleaf("dn", "e"))
			want = append(want, "/top/np/dn=e")
		} else {
			want = append(want, "/top/np/dn=dv")
		}
		kids = append(kids, datanode.CreateDataNode("np", c, nil))
	} else {
		want = append(want, "/top/np/dn=dv") // non-presence container under an existing parent
	}
	if vrt.Bool("pc") {
		var c []datanode.DataNode
		if vrt.Bool("dp") {
			c = append(c, dleaf("dp", "e"))
			want = append(want, "/top/pc/dp=e")
		} else {
			want = append(want, "/top/pc/dp=dv")
		}
		kids = append(kids, datanode.CreateDataNode("pc", c, nil))
	}
	switch vrt.Choice("case", 3) {
	case 0: // no case configured: the default case c2 supplies z
		want = append(want, "/top/z=dz")
	case 1:
		kids = append(kids, dleaf("x", "v"))
		want = append(want, "/top/x=v")
	case 2:
		hasY, hasZ := vrt.Bool("y"), vrt.Bool("z")
		vrt.Assume(hasY || hasZ)
		if hasY {
			kids = append(kids, dleaf("y", "v"))
			want = append(want, "/top/y=v")
		}
		if hasZ {
			kids = append(kids, dleaf("z", "e"))
			want = append(want, "/top/z=e")
		} else {
			want = append(want, "/top/z=dz")
		}
	}
	data := datanode.CreateDataNode("top", kids, nil)
	vrt.Reach("c18.defaults")
	once := AddDefaults(top, data)
	var got, got2 []string
	c18Walk(once, "", &got)
	c18Walk(AddDefaults(top, once), "", &got2)
	g, w, g2 := sortedJoin(got), sortedJoin(want), sortedJoin(got2)
	vrt.Observe("decorated", g)
	vrt.Assert(vrt.StrEq(g, w), "c18.defaults.decorated-view")
	vrt.Assert(vrt.StrEq(g, g2), "c18.defaults.idempotent")
}
