package schema

// C18, nested shapes: "mandatory nodes are looked for through non-presence containers
// and inside the chosen case" at depth — a declarative schema description, a generic
// symbolic data generator (every node's presence is a solver-chosen bit, every choice's
// populated case a solver-chosen index) and a recursive transcription of the RFC 6020
// rule as oracle.

import (
	"encoding/xml"

	"github.com/sdcio/yang-parser/data/datanode"
	"github.com/sdcio/yang-parser/vrt"
)

const (
	c18Leaf = iota
	c18Cont
	c18Choice
	c18Case
)

type c18n struct {
	kind     int
	name     string
	mand     bool // leaf, choice
	presence bool // container
	kids     []*c18n
}

type c18d struct {
	spec *c18n
	kids []*c18d
}

func c18L(name string, mand bool) *c18n { return &c18n{kind: c18Leaf, name: name, mand: mand} }
func c18NP(name string, kids ...*c18n) *c18n {
	return &c18n{kind: c18Cont, name: name, kids: kids}
}
func c18PC(name string, kids ...*c18n) *c18n {
	return &c18n{kind: c18Cont, name: name, presence: true, kids: kids}
}
func c18Ch(name string, mand bool, cases ...*c18n) *c18n {
	return &c18n{kind: c18Choice, name: name, mand: mand, kids: cases}
}
func c18Cs(name string, kids ...*c18n) *c18n { return &c18n{kind: c18Case, name: name, kids: kids} }

// the shapes: a mandatory choice / mandatory leaf below 1, 2 and 3 non-presence
// containers; inside a case of a non-mandatory choice; below a presence container;
// a choice nested in a case.
var c18Shapes = []*c18n{
	c18NP("top",
		c18NP("n1", c18NP("n2",
			c18Ch("cha", true, c18Cs("a1", c18L("xa", false)), c18Cs("a2", c18L("ya", false))),
			c18L("lm", true))),
		c18L("o", false)),
	c18NP("top",
		c18Ch("chb", false,
			c18Cs("b1", c18NP("nb", c18Ch("chc", true, c18Cs("c1", c18L("xc", false)), c18Cs("c2", c18L("yc", true), c18L("zc", false))), c18L("ob", false)), c18L("tb", false)),
			c18Cs("b2", c18L("zb", false)))),
	c18NP("top",
		c18PC("pc", c18NP("n3", c18NP("n4", c18NP("n5", c18Ch("chd", true, c18Cs("d1", c18L("xd", false)), c18Cs("d2", c18L("yd", false)))))), c18L("op", false)),
		c18NP("n6", c18Ch("che", true, c18Cs("e1", c18L("xe", false)), c18Cs("e2", c18NP("n7", c18L("me", true), c18L("oe", false)))))),
}

func c18Build(n *c18n) Node {
	ns, mod := "urn:t", "t"
	var kids []Node
	for _, k := range n.kids {
		kids = append(kids, c18Build(k))
	}
	var out Node
	var err error
	switch n.kind {
	case c18Leaf:
		out = NewLeaf(n.name, ns, mod, "", "", "", "", n.mand, NewString(xml.Name{Local: "string"}, nil, nil, nil, "", false), true, Current, nil, nil)
	case c18Cont:
		out, err = NewContainer(n.name, ns, mod, "", "", "", n.presence, true, Current, nil, nil, kids)
	case c18Case:
		out, err = NewCase(n.name, ns, mod, "", "", "", true, Current, nil, kids)
	case c18Choice:
		out, err = NewChoice(n.name, ns, mod, "", "", "", "", n.mand, true, Current, nil, kids)
	}
	if err != nil {
		panic(err)
	}
	return out
}

// c18Gen: symbolic data below a node's children; a choice contributes the nodes of one
// solver-chosen case (or nothing) directly to its parent's children.
func c18Gen(children []*c18n, tag string) []*c18d {
	var out []*c18d
	for _, c := range children {
		t := tag + "/" + c.name
		switch c.kind {
		case c18Leaf:
			if vrt.Bool(t) {
				out = append(out, &c18d{spec: c})
			}
		case c18Cont:
			if vrt.Bool(t) {
				out = append(out, &c18d{spec: c, kids: c18Gen(c.kids, t)})
			}
		case c18Choice:
			w := vrt.Choice(t, len(c.kids)+1)
			if w > 0 {
				out = append(out, c18Gen(c.kids[w-1].kids, t+"/"+c.kids[w-1].name)...)
			}
		}
	}
	return out
}

func c18Data(d *c18d) datanode.DataNode {
	if d.spec.kind == c18Leaf {
		return dleaf(d.spec.name, "v")
	}
	var kids []datanode.DataNode
	for _, k := range d.kids {
		kids = append(kids, c18Data(k))
	}
	return datanode.CreateDataNode(d.spec.name, kids, nil)
}

func c18Find(data []*c18d, n *c18n) *c18d {
	for _, d := range data {
		if d.spec == n {
			return d
		}
	}
	return nil
}

func c18HasData(cs *c18n, data []*c18d) bool {
	for _, k := range cs.kids {
		if k.kind == c18Choice {
			for _, inner := range k.kids {
				if c18HasData(inner, data) {
					return true
				}
			}
		} else if c18Find(data, k) != nil {
			return true
		}
	}
	return false
}

// c18Missing: RFC 6020 §7.6.5 / §7.9.4 — a mandatory leaf must exist if its closest
// ancestor that is not a non-presence container exists; a mandatory choice needs a
// populated case; inside the populated case the same rules apply.
func c18Missing(children []*c18n, data []*c18d) bool {
	for _, c := range children {
		switch c.kind {
		case c18Leaf:
			if c.mand && c18Find(data, c) == nil {
				return true
			}
		case c18Cont:
			if d := c18Find(data, c); d != nil {
				if c18Missing(c.kids, d.kids) {
					return true
				}
			} else if !c.presence && c18Missing(c.kids, nil) {
				return true
			}
		case c18Choice:
			var active *c18n
			for _, cs := range c.kids {
				if c18HasData(cs, data) {
					active = cs
				}
			}
			if active == nil {
				if c.mand {
					return true
				}
			} else if c18Missing(active.kids, data) {
				return true
			}
		}
	}
	return false
}

// VerifH_C18_Nested
func VerifH_C18_Nested() {
	spec := c18Shapes[vrt.Choice("shape", len(c18Shapes))]
	top := c18Build(spec)
	data := &c18d{spec: spec, kids: c18Gen(spec.kids, "")}
	viol := c18Missing(spec.kids, data.kids)
	vrt.Reach("c18.nested")
	_, errs, ok := ValidateSchema(top, c18Data(data), false)
	vrt.Observe("verdict", len(errs) == 0, ok)
	vrt.Assert((len(errs) > 0) == viol, "c18.nested.verdict")
	vrt.Assert(ok == (len(errs) == 0), "c18.nested.status-matches-errors")
}
