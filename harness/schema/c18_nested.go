package schema

// C18, nested shapes: "mandatory nodes are looked for through non-presence containers
// and inside the chosen case" at depth — a declarative schema description, a generic
// symbolic data generator (every node's presence is a solver-chosen bit, every choice's
// populated case a solver-chosen index) and a recursive transcription of the RFC 6020
// rule as oracle.

import (
	"encoding/xml"

	"github.com/sdcio/yang-parser/data/datanode"
	"github.com/sdcio/yang-parser/vrt"
)

const (
	c18Leaf = iota
	c18Cont
	c18Choice
	c18Case
	c18LL  // leaf-list with min/max
	c18Lst // list keyed by k with min/max and an optional unique path
)

type c18n struct {
	kind     int
	name     string
	mand     bool   // leaf, choice
	presence bool   // container
	def      string // leaf default value, choice default case
	sym      bool   // leaf whose value is a symbolic letter from {p,q} (unique leaves)
	gen      int    // list: most entries generated (0 = 3)
	min, max int    // leaf-list, list (max 0 = unbounded)
	unique   []string
	kids     []*c18n
}

type c18d struct {
	spec  *c18n
	kids  []*c18d
	count int    // leaf-list values
	val   string // leaf value
}

func c18LD(name, def string) *c18n { return &c18n{kind: c18Leaf, name: name, def: def} }
func c18LS(name string) *c18n      { return &c18n{kind: c18Leaf, name: name, sym: true} }
func c18ChD(name, def string, cases ...*c18n) *c18n {
	return &c18n{kind: c18Choice, name: name, def: def, kids: cases}
}
func c18LLn(name string, min, max int) *c18n { return &c18n{kind: c18LL, name: name, min: min, max: max} }
func c18Ls(name string, min, max int, unique []string, kids ...*c18n) *c18n {
	return &c18n{kind: c18Lst, name: name, min: min, max: max, unique: unique, kids: kids}
}

func c18L(name string, mand bool) *c18n { return &c18n{kind: c18Leaf, name: name, mand: mand} }
func c18NP(name string, kids ...*c18n) *c18n {
	return &c18n{kind: c18Cont, name: name, kids: kids}
}
func c18PC(name string, kids ...*c18n) *c18n {
	return &c18n{kind: c18Cont, name: name, presence: true, kids: kids}
}
func c18Ch(name string, mand bool, cases ...*c18n) *c18n {
	return &c18n{kind: c18Choice, name: name, mand: mand, kids: cases}
}
func c18Cs(name string, kids ...*c18n) *c18n { return &c18n{kind: c18Case, name: name, kids: kids} }

// the shapes: a mandatory choice / mandatory leaf below 1, 2 and 3 non-presence
// containers; inside a case of a non-mandatory choice; below a presence container;
// a choice nested in a case.
var c18Shapes = []*c18n{
	c18NP("top",
		c18NP("n1", c18NP("n2",
			c18Ch("cha", true, c18Cs("a1", c18L("xa", false)), c18Cs("a2", c18L("ya", false))),
			c18L("lm", true))),
		c18L("o", false)),
	c18NP("top",
		c18Ch("chb", false,
			c18Cs("b1", c18NP("nb", c18Ch("chc", true, c18Cs("c1", c18L("xc", false)), c18Cs("c2", c18L("yc", true), c18L("zc", false))), c18L("ob", false)), c18L("tb", false)),
			c18Cs("b2", c18L("zb", false)))),
	c18NP("top",
		c18PC("pc", c18NP("n3", c18NP("n4", c18NP("n5", c18Ch("chd", true, c18Cs("d1", c18L("xd", false)), c18Cs("d2", c18L("yd", false)))))), c18L("op", false)),
		c18NP("n6", c18Ch("che", true, c18Cs("e1", c18L("xe", false)), c18Cs("e2", c18NP("n7", c18L("me", true), c18L("oe", false)))))),
	// min-elements seen through non-presence containers; entries are existing parents;
	// unique over a descendant
	c18NP("top",
		c18NP("n8", c18NP("n9", c18LLn("ll", 1, 2), c18Ls("lst", 1, 2, []string{"c", "x"},
			c18NP("c", c18L("x", false)), c18L("me", true)))),
		c18PC("pc2", c18LLn("ll2", 2, 0))),
	// unique leaves next to siblings whose names order differently as text and as
	// numbers (p2 / p10), directly in the entry and below a container
	c18NP("top", c18Two(c18Ls("ports", 0, 0, []string{"p10"}, c18L("p2", false), c18LS("p10"), c18L("p1", false)))),
	c18NP("top", c18Two(c18Ls("vrfs", 0, 0, []string{"cfg", "v10"}, c18NP("cfg", c18L("v9", false), c18LS("v10"), c18L("v100", false))))),
}

func c18Two(l *c18n) *c18n { l.gen = 2; return l }

// shapes for default decoration: defaults at depth, default cases at depth
var c18DefShapes = []*c18n{
	c18NP("top",
		c18NP("n1", c18NP("n2", c18LD("d2", "v2"), c18L("o2", false)), c18LD("d1", "v1")),
		c18PC("pc", c18NP("n3", c18LD("d3", "v3")), c18L("op", false))),
	c18NP("top",
		c18ChD("cha", "a2",
			c18Cs("a1", c18L("xa", false), c18LD("da", "va")),
			c18Cs("a2", c18NP("na", c18LD("dn", "vn")), c18LD("db", "vb"),
				c18ChD("chb", "b1", c18Cs("b1", c18LD("dc", "vc")), c18Cs("b2", c18L("xb", false)))))),
	// like-named nodes at different levels: a case named like its choice, a choice named
	// like the case that holds it
	c18NP("top",
		c18ChD("addr", "",
			c18Cs("addr", c18L("ip", false), c18LD("prefix", "32")),
			c18Cs("dhcp", c18L("client", false))),
		c18ChD("auth", "",
			c18Cs("pw", c18L("user", false),
				c18ChD("pw", "plain", c18Cs("plain", c18LD("enc", "utf8")), c18Cs("hashed", c18L("hash", false)))),
			c18Cs("none", c18L("anon", false)))),
}

func c18Build(n *c18n) Node {
	ns, mod := "urn:t", "t"
	var kids []Node
	for _, k := range n.kids {
		kids = append(kids, c18Build(k))
	}
	var out Node
	var err error
	switch n.kind {
	case c18Leaf:
		out = NewLeaf(n.name, ns, mod, "", "", "", "", n.mand, NewString(xml.Name{Local: "string"}, nil, nil, nil, n.def, n.def != ""), true, Current, nil, nil)
	case c18LL:
		out = NewLeafList(n.name, ns, mod, "", "", "", "", "", "", uint(n.min), c18Max(n.max), NewString(xml.Name{Local: "string"}, nil, nil, nil, "", false), true, Current, nil, nil)
	case c18Lst:
		var uniq [][][]xml.Name
		if len(n.unique) > 0 {
			var path []xml.Name
			for _, e := range n.unique {
				path = append(path, xml.Name{Local: e})
			}
			uniq = [][][]xml.Name{{path}}
		}
		key := NewLeaf("k", ns, mod, "", "", "", "", false, NewString(xml.Name{Local: "string"}, nil, nil, nil, "", false), true, Current, nil, nil)
		out, err = NewList(n.name, ns, mod, "", "", "", "", uint(n.min), c18Max(n.max), true, Current, []string{"k"}, uniq, nil, nil, append([]Node{key}, kids...))
	case c18Cont:
		out, err = NewContainer(n.name, ns, mod, "", "", "", n.presence, true, Current, nil, nil, kids)
	case c18Case:
		out, err = NewCase(n.name, ns, mod, "", "", "", true, Current, nil, kids)
	case c18Choice:
		out, err = NewChoice(n.name, ns, mod, "", n.def, "", "", n.mand, true, Current, nil, kids)
	}
	if err != nil {
		panic(err)
	}
	return out
}

func c18Max(m int) uint {
	if m == 0 {
		return ^uint(0)
	}
	return uint(m)
}

// c18Gen: symbolic data below a node's children; a choice contributes the nodes of one
// solver-chosen case (or nothing) directly to its parent's children.
func c18Gen(children []*c18n, tag string) []*c18d {
	var out []*c18d
	for _, c := range children {
		t := tag + "/" + c.name
		switch c.kind {
		case c18Leaf:
			if vrt.Bool(t) {
				v := "v"
				if c.name == "x" || c.sym {
					v = lowerPQ(t + ".val") // the leaf of the unique path: symbolic value from {p,q}
				}
				out = append(out, &c18d{spec: c, val: v})
			}
		case c18LL:
			if n := vrt.Choice(t, 4); n > 0 {
				out = append(out, &c18d{spec: c, count: n})
			}
		case c18Lst:
			// 0..3 entries (or 0..gen), each an existing parent of its own children
			most := 3
			if c.gen > 0 {
				most = c.gen
			}
			if n := vrt.Choice(t, most+1); n > 0 {
				l := &c18d{spec: c}
				for e := 0; e < n; e++ {
					l.kids = append(l.kids, &c18d{spec: c, count: e + 1, kids: c18Gen(c.kids, t+"#"+string(rune('1'+e)))})
				}
				out = append(out, l)
			}
		case c18Cont:
			if vrt.Bool(t) {
				out = append(out, &c18d{spec: c, kids: c18Gen(c.kids, t)})
			}
		case c18Choice:
			w := vrt.Choice(t, len(c.kids)+1)
			if w > 0 {
				out = append(out, c18Gen(c.kids[w-1].kids, t+"/"+c.kids[w-1].name)...)
			}
		}
	}
	return out
}

func c18Data(d *c18d) datanode.DataNode {
	switch d.spec.kind {
	case c18Leaf:
		if d.spec.name == "x" {
			// the unique leaf: entry-dependent symbolic value from {p,q}
			return dleaf("x", d.val)
		}
		return dleaf(d.spec.name, d.val)
	case c18LL:
		return datanode.CreateDataNode(d.spec.name, nil, []string{"1", "2", "3"}[:d.count])
	case c18Lst:
		if d.count > 0 { // an entry: named by its key value
			key := string(rune('0' + d.count))
			kids := []datanode.DataNode{dleaf("k", key)}
			for _, k := range d.kids {
				kids = append(kids, c18Data(k))
			}
			return datanode.CreateDataNode(key, kids, nil)
		}
	}
	var kids []datanode.DataNode
	for _, k := range d.kids {
		kids = append(kids, c18Data(k))
	}
	return datanode.CreateDataNode(d.spec.name, kids, nil)
}

func c18Find(data []*c18d, n *c18n) *c18d {
	for _, d := range data {
		if d.spec == n {
			return d
		}
	}
	return nil
}

func c18HasData(cs *c18n, data []*c18d) bool {
	for _, k := range cs.kids {
		if k.kind == c18Choice {
			for _, inner := range k.kids {
				if c18HasData(inner, data) {
					return true
				}
			}
		} else if c18Find(data, k) != nil {
			return true
		}
	}
	return false
}

// c18Missing: RFC 6020 §7.6.5 / §7.9.4 — a mandatory leaf must exist if its closest
// ancestor that is not a non-presence container exists; a mandatory choice needs a
// populated case; inside the populated case the same rules apply.
func c18Missing(children []*c18n, data []*c18d) bool {
	for _, c := range children {
		switch c.kind {
		case c18Leaf:
			if c.mand && c18Find(data, c) == nil {
				return true
			}
		case c18LL:
			n := 0
			if d := c18Find(data, c); d != nil {
				n = d.count
			}
			if n < c.min || (c.max > 0 && n > c.max) {
				return true
			}
		case c18Lst:
			var entries []*c18d
			if d := c18Find(data, c); d != nil {
				entries = d.kids
			}
			if len(entries) < c.min || (c.max > 0 && len(entries) > c.max) {
				return true
			}
			var seen []string
			for _, e := range entries {
				if c18Missing(c.kids, e.kids) {
					return true
				}
				if len(c.unique) > 0 {
					// value of the unique path inside this entry (absent = does not take part)
					cur := e.kids
					val, ok := "", false
					for k, name := range c.unique {
						var nx *c18d
						for _, d := range cur {
							if d.spec.name == name {
								nx = d
							}
						}
						if nx == nil {
							break
						}
						if k == len(c.unique)-1 {
							val, ok = nx.val, true
						}
						cur = nx.kids
					}
					if ok {
						for _, o := range seen {
							if o == val {
								return true
							}
						}
						seen = append(seen, val)
					}
				}
			}
		case c18Cont:
			if d := c18Find(data, c); d != nil {
				if c18Missing(c.kids, d.kids) {
					return true
				}
			} else if !c.presence && c18Missing(c.kids, nil) {
				return true
			}
		case c18Choice:
			var active *c18n
			for _, cs := range c.kids {
				if c18HasData(cs, data) {
					active = cs
				}
			}
			if active == nil {
				if c.mand {
					return true
				}
			} else if c18Missing(active.kids, data) {
				return true
			}
		}
	}
	return false
}

// VerifH_C18_Nested
func VerifH_C18_Nested() {
	spec := c18Shapes[vrt.Choice("shape", len(c18Shapes))]
	top := c18Build(spec)
	data := &c18d{spec: spec, kids: c18Gen(spec.kids, "")}
	viol := c18Missing(spec.kids, data.kids)
	vrt.Reach("c18.nested")
	_, errs, ok := ValidateSchema(top, c18Data(data), false)
	vrt.Observe("verdict", len(errs) == 0, ok)
	vrt.Assert((len(errs) > 0) == viol, "c18.nested.verdict")
	vrt.Assert(ok == (len(errs) == 0), "c18.nested.status-matches-errors")
}


// c18Decorated: the default-decorated view as sorted "path=value" lines (RFC 6020
// §7.6.1, §7.9.3): defaults of absent leaves under existing parents and under
// non-presence containers; inside the active case, else inside the default case.
func c18Decorated(children []*c18n, data []*c18d, prefix string, out *[]string) {
	for _, c := range children {
		p := prefix + "/" + c.name
		switch c.kind {
		case c18Leaf:
			if d := c18Find(data, c); d != nil {
				*out = append(*out, p+"="+d.val)
			} else if c.def != "" {
				*out = append(*out, p+"="+c.def)
			}
		case c18Cont:
			d := c18Find(data, c)
			if d == nil && c.presence {
				continue
			}
			var sub []string
			var kids []*c18d
			if d != nil {
				kids = d.kids
			}
			c18Decorated(c.kids, kids, p, &sub)
			if len(sub) == 0 && d != nil {
				sub = []string{p} // an existing empty container stays
			}
			*out = append(*out, sub...)
		case c18Choice:
			var active *c18n
			for _, cs := range c.kids {
				if c18HasData(cs, data) {
					active = cs
				}
			}
			if active == nil && c.def != "" {
				for _, cs := range c.kids {
					if cs.name == c.def {
						active = cs
					}
				}
			}
			if active != nil {
				c18Decorated(active.kids, data, prefix, out) // choices and cases are transparent
			}
		}
	}
}

// VerifH_C18_NestedDefaults
func VerifH_C18_NestedDefaults() {
	spec := c18DefShapes[vrt.Choice("shape", len(c18DefShapes))]
	top := c18Build(spec)
	data := &c18d{spec: spec, kids: c18Gen(spec.kids, "")}
	var want []string
	c18Decorated(spec.kids, data.kids, "/top", &want)
	if len(want) == 0 {
		want = []string{"/top"}
	}
	vrt.Reach("c18.nesteddefaults")
	dn := c18Data(data)
	once := AddDefaults(top, dn)
	var got, got2, before []string
	c18Walk(dn, "", &before)
	c18Walk(once, "", &got)
	c18Walk(AddDefaults(top, once), "", &got2)
	g, w, g2 := sortedJoin(got), sortedJoin(want), sortedJoin(got2)
	vrt.Observe("decorated", sortedJoin(before), g)
	vrt.Assert(g == w, "c18.nesteddefaults.decorated-view")
	vrt.Assert(g == g2, "c18.nesteddefaults.idempotent")
}
