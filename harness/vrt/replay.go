package vrt

import (
	"encoding/json"
	"os"
	"strconv"
	"testing"
	"time"
)

// ReplayMain runs the cases listed in $VERIF_REPLAY natively and writes their outcomes
// to $VERIF_REPLAY_OUT.  A case that does not finish within $VERIF_WATCHDOG_MS is
// recorded as a timeout and the process exits (the driver restarts it for the rest).
func ReplayMain(t *testing.T, harnesses map[string]func()) {
	in, out := os.Getenv("VERIF_REPLAY"), os.Getenv("VERIF_REPLAY_OUT")
	if in == "" {
		t.Skip("VERIF_REPLAY not set")
	}
	b, err := os.ReadFile(in)
	if err != nil {
		t.Fatal(err)
	}
	var cases []*Case
	if err := json.Unmarshal(b, &cases); err != nil {
		t.Fatal(err)
	}
	wd := 10000
	if s := os.Getenv("VERIF_WATCHDOG_MS"); s != "" {
		wd, _ = strconv.Atoi(s)
	}
	var outs []*Outcome
	flush := func() {
		ob, _ := json.Marshal(outs)
		if out != "" {
			os.WriteFile(out, ob, 0644)
		}
	}
	for _, c := range cases {
		fn := harnesses[c.Harness]
		if fn == nil {
			outs = append(outs, &Outcome{Panic: "unknown harness " + c.Harness})
			continue
		}
		done := make(chan *Outcome, 1)
		go func() { done <- Run(c, fn) }()
		select {
		case o := <-done:
			outs = append(outs, o)
		case <-time.After(time.Duration(wd) * time.Millisecond):
			to := &Outcome{Timeout: true}
			if st := cur; st != nil {
				for _, name := range st.order {
					if st.open[name] && st.classes[name] {
						to.Timeout = false
						to.Known = append(to.Known, "timeout|"+name)
						break
					}
				}
			}
			outs = append(outs, to)
			flush()
			os.Exit(0)
		}
	}
	flush()
	if len(cases) == 1 {
		o := outs[0]
		for _, f := range o.Failed {
			t.Errorf("VERIF-ASSERT %s", f)
		}
		if o.Panic != "" {
			t.Errorf("VERIF-PANIC %s", o.Panic)
		}
	}
}
