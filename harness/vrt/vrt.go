// Package vrt is the harness runtime.  Under the symbolic executor (gosx) every
// function below is intercepted: inputs become SMT variables, Assume/Assert become
// path-condition updates and solver queries.  Compiled natively (replay and
// differential validation) the inputs are read from the model in $VERIF_REPLAY.
//
// This package is injected by build overlay as github.com/sdcio/yang-parser/vrt; it is
// not part of the repository.
package vrt

import (
	"fmt"
	"math"
	"runtime"
	"strconv"
	"strings"
	"time"
)

// Case is one native execution request.
type Case struct {
	Harness string            `json:"harness"`
	Params  map[string]int    `json:"params"`
	Model   map[string]uint64 `json:"model"`
	OpenKF  []string          `json:"open_kf"`
}

// Outcome is what a native execution produced.
type Outcome struct {
	Observed []string `json:"observed"`
	Failed   []string `json:"failed"`  // assertion ids that failed (not covered by an open class)
	Known    []string `json:"known"`   // "<assert id>|<class>" failures covered by an open class
	Panic    string   `json:"panic"`   // uncaught panic text
	Reached  []string `json:"reached"`
	Assumed  bool     `json:"assumed"` // an Assume was false (model not applicable)
	Timeout  bool     `json:"timeout"`
}

type state struct {
	c       *Case
	out     *Outcome
	classes map[string]bool
	order   []string
	base    int
	open    map[string]bool
}

var cur *state

type assumeFalse struct{}

// Run executes fn natively under the given case (used by the replay test).
func Run(c *Case, fn func()) (out *Outcome) {
	out = &Outcome{}
	st := &state{c: c, out: out, classes: map[string]bool{}, base: runtime.NumGoroutine(), open: map[string]bool{}}
	for _, k := range c.OpenKF {
		st.open[k] = true
	}
	cur = st
	defer func() {
		if r := recover(); r != nil {
			if _, ok := r.(assumeFalse); ok {
				out.Assumed = true
				return
			}
			for _, name := range st.order {
				if st.open[name] && st.classes[name] {
					out.Known = append(out.Known, "panic|"+name)
					return
				}
			}
			out.Panic = fmt.Sprint(r)
		}
	}()
	fn()
	return out
}

func get(name string) uint64 {
	if cur == nil {
		return 0
	}
	return cur.c.Model[name]
}

// Symbolic reports whether the harness runs under the symbolic executor.
func Symbolic() bool { return false }

// Param returns a harness parameter (a bound); concrete in both modes.
func Param(name string, def int) int {
	if cur != nil {
		if v, ok := cur.c.Params[name]; ok {
			return v
		}
	}
	return def
}

func Byte(name string) byte       { return byte(get(name)) }
func Bool(name string) bool       { return get(name) != 0 }
func Int64(name string) int64     { return int64(get(name)) }
func Int32(name string) int32     { return int32(get(name)) }
func Int(name string) int         { return int(get(name)) }
func Uint64(name string) uint64   { return get(name) }
func Uint32(name string) uint32   { return uint32(get(name)) }
func Float64(name string) float64 { return math.Float64frombits(get(name)) }

func Bytes(name string, n int) []byte {
	b := make([]byte, n)
	for i := range b {
		b[i] = byte(get(name + "[" + strconv.Itoa(i) + "]"))
	}
	return b
}

func String(name string, n int) string { return string(Bytes(name, n)) }

// Choice returns a value in [0,n); the executor explores every one.
func Choice(name string, n int) int {
	if n <= 1 {
		return 0
	}
	v := get(name)
	if v >= uint64(n) {
		panic(assumeFalse{})
	}
	return int(v)
}

func Assume(c bool) {
	if !c {
		panic(assumeFalse{})
	}
}

// Class declares the predicate of a known-finding class at this point of the run.
func Class(name string, c bool) {
	if cur == nil {
		return
	}
	if _, ok := cur.classes[name]; !ok {
		cur.order = append(cur.order, name)
	}
	cur.classes[name] = c
}

// Assert states an obligation.  A failure covered by an open known-finding class is
// recorded as known, any other failure as failed.
func Assert(c bool, id string) {
	if c || cur == nil {
		return
	}
	for _, name := range cur.order {
		if cur.open[name] && cur.classes[name] {
			cur.out.Known = append(cur.out.Known, id+"|"+name)
			return
		}
	}
	cur.out.Failed = append(cur.out.Failed, id)
}

func Reach(id string) {
	if cur != nil {
		cur.out.Reached = append(cur.out.Reached, id)
	}
}

// Observe records values for differential validation (scalars, strings, []byte only).
func Observe(key string, vals ...interface{}) {
	if cur == nil {
		return
	}
	var sb strings.Builder
	sb.WriteString(key)
	for _, v := range vals {
		sb.WriteString(" ")
		sb.WriteString(Canon(v))
	}
	cur.out.Observed = append(cur.out.Observed, sb.String())
}

// Canon is the canonical text of an observed value (shared with the executor).
func Canon(v interface{}) string {
	switch v := v.(type) {
	case nil:
		return "nil"
	case string:
		return strconv.Quote(v)
	case []byte:
		return strconv.Quote(string(v))
	case bool:
		return strconv.FormatBool(v)
	case float64:
		if v != v {
			return "NaN"
		}
		return strconv.FormatFloat(v, 'g', -1, 64) + signz(v)
	case float32:
		return Canon(float64(v))
	case int:
		return strconv.FormatInt(int64(v), 10)
	case int8:
		return strconv.FormatInt(int64(v), 10)
	case int16:
		return strconv.FormatInt(int64(v), 10)
	case int32:
		return strconv.FormatInt(int64(v), 10)
	case int64:
		return strconv.FormatInt(v, 10)
	case uint:
		return strconv.FormatUint(uint64(v), 10)
	case uint8:
		return strconv.FormatUint(uint64(v), 10)
	case uint16:
		return strconv.FormatUint(uint64(v), 10)
	case uint32:
		return strconv.FormatUint(uint64(v), 10)
	case uint64:
		return strconv.FormatUint(v, 10)
	case uintptr:
		return strconv.FormatUint(uint64(v), 10)
	}
	return fmt.Sprintf("?%T", v)
}

func signz(v float64) string {
	if v == 0 && math.Signbit(v) {
		return "(-0)"
	}
	return ""
}

// Non-short-circuit boolean connectives (no fork under the executor).
func And(a, b bool) bool     { return a && b }
func Or(a, b bool) bool      { return a || b }
func Not(a bool) bool        { return !a }
func Implies(a, b bool) bool { return !a || b }
func Iff(a, b bool) bool     { return a == b }
func StrEq(a, b string) bool { return a == b }

func IteInt(c bool, a, b int) int {
	if c {
		return a
	}
	return b
}
func IteByte(c bool, a, b byte) byte {
	if c {
		return a
	}
	return b
}
func IteInt64(c bool, a, b int64) int64 {
	if c {
		return a
	}
	return b
}
func IteFloat64(c bool, a, b float64) float64 {
	if c {
		return a
	}
	return b
}
func IteBool(c bool, a, b bool) bool {
	if c {
		return a
	}
	return b
}

// Concretize forces the executor to fork over the feasible values of v.
func Concretize(v int) int         { return v }
func ConcretizeByte(v byte) byte   { return v }

// Fmod is math.Mod (an uninterpreted function under the executor, shared by
// implementation and reference models).
func Fmod(x, y float64) float64 { return math.Mod(x, y) }
func IsNaN(x float64) bool      { return x != x }

// FloatEq: both NaN, or bit-identical (distinguishes -0 from +0).
func FloatEq(a, b float64) bool {
	if a != a || b != b {
		return a != a && b != b
	}
	return math.Float64bits(a) == math.Float64bits(b)
}

// NoPanic calls f and reports whether it returned normally, and the panic text if not.
func NoPanic(f func()) (ok bool, text string) {
	defer func() {
		if r := recover(); r != nil {
			if _, isAssume := r.(assumeFalse); isAssume {
				panic(r)
			}
			ok, text = false, fmt.Sprint(r)
		}
	}()
	f()
	return true, ""
}

// MapOrder selects the map iteration policy of the executor (no effect natively).
func MapOrder(policy int) {}

// LiveGoroutines returns the number of goroutines started since the harness began
// that are still alive after everything runnable has run.
func LiveGoroutines() int {
	if cur == nil {
		return 0
	}
	n := 0
	for i := 0; i < 50; i++ {
		runtime.Gosched()
		n = runtime.NumGoroutine() - cur.base
		if n <= 0 {
			return 0
		}
		time.Sleep(2 * time.Millisecond)
	}
	return n
}

// Freeze / FrozenWrites: immutability monitor of the executor (C06); inert natively.
func Freeze(roots ...interface{}) {}
func Thaw()                       {}
func FrozenWrites() int           { return 0 }

// LocksetViolations: number of frozen (shared) locations that were written since Freeze
// and whose accesses (reads and writes) do not all hold a common lock.  Engine only.
func LocksetViolations() int { return 0 }
