package parse

// C08 — string arguments are decoded as RFC 6020 §6.1.3 prescribes.
//
// The statement `<indent>description <ARG>;` is rendered from symbolic pieces; the
// reference decoder specDecode below is written from §6.1.3 (in the order of steps the
// property lists) and does not share code with parse.go.

import (
	"strconv"

	"github.com/sdcio/yang-parser/vrt"
)

const (
	pieceUnquoted = iota
	pieceSingle
	pieceDouble
)

type c08Piece struct {
	kind   int
	raw    []byte // bytes between the quotes (or the unquoted word) as written
	column int    // column of the first content byte = column of the opening quote + 1
}

func isTermByte(c byte) bool {
	return c == ' ' || c == '\t' || c == '\r' || c == '\n' || c == ';' || c == '{' || c == '}' || c == '"'
}

// genDoubleContent: up to M "units": a plain byte (neither '"' nor '\') or a backslash
// followed by any byte.  Returns the raw bytes.
func genDoubleContent(tag string, M int) []byte {
	n := vrt.Choice(tag+".units", M+1)
	var raw []byte
	for i := 0; i < n && len(raw) < M; i++ {
		c := vrt.Byte(tag + ".c" + strconv.Itoa(i))
		if c == '\\' {
			if len(raw)+2 > M {
				vrt.Assume(false)
			}
			e := vrt.Byte(tag + ".e" + strconv.Itoa(i))
			// "\r" is substituted by the implementation although RFC 6020 does not
			// list it: unspecified, not generated
			vrt.Assume(e != 'r')
			raw = append(raw, '\\', e)
			continue
		}
		vrt.Assume(c != '"')
		raw = append(raw, c)
	}
	return raw
}

// specDecode: RFC 6020 §6.1.3 for a double-quoted string whose opening quote is at
// column qcol (0-based, a tab counting as 8 columns).
func specDecode(raw []byte, qcol int) (out []byte, blankLineCase bool) {
	// 1. escape substitution
	var s []byte
	for i := 0; i < len(raw); i++ {
		c := raw[i]
		if c == '\\' && i+1 < len(raw) {
			e := raw[i+1]
			switch e {
			case 'n':
				s = append(s, '\n')
				i++
				continue
			case 't':
				s = append(s, '\t')
				i++
				continue
			case '"':
				s = append(s, '"')
				i++
				continue
			case '\\':
				s = append(s, '\\')
				i++
				continue
			}
		}
		s = append(s, c)
	}
	// 2. no line break: verbatim
	hasLF := false
	for _, c := range s {
		if c == '\n' {
			hasLF = true
		}
	}
	if !hasLF {
		return s, false
	}
	// 3. per line: strip indentation of continuation lines up to and including the
	// quote column, strip blanks before each line break; line breaks are kept
	start := 0
	lineNo := 0
	for start <= len(s) {
		end := start
		for end < len(s) && s[end] != '\n' {
			end++
		}
		last := end == len(s)
		line := s[start:end]
		if lineNo > 0 {
			// strip leading SP/TAB up to qcol+1 columns
			cols := 0
			k := 0
			var pad []byte
			for k < len(line) && cols < qcol+1 {
				if line[k] == ' ' {
					cols++
				} else if line[k] == '\t' {
					cols += 8
				} else {
					break
				}
				k++
				if cols > qcol+1 {
					for p := 0; p < cols-(qcol+1); p++ {
						pad = append(pad, ' ')
					}
				}
			}
			line = append(pad, line[k:]...)
		}
		if !last {
			// blanks before the line break (a CR immediately before LF belongs to the break)
			e := len(line)
			cr := false
			if e > 0 && line[e-1] == '\r' {
				cr = true
				e--
			}
			for e > 0 && (line[e-1] == ' ' || line[e-1] == '\t') {
				e--
			}
			if e == 0 {
				blankLineCase = true
			}
			out = append(out, line[:e]...)
			if cr {
				out = append(out, '\r')
			}
			out = append(out, '\n')
		} else {
			out = append(out, line...)
		}
		lineNo++
		start = end + 1
	}
	return out, blankLineCase
}

// VerifH_C08_Decode: one statement whose argument has one or two pieces.
func VerifH_C08_Decode() {
	M := vrt.Param("M", 3)
	// indentation before the keyword: 0..3 spaces or one tab
	ind := vrt.Choice("indent", 5)
	prefix := ""
	switch ind {
	case 1, 2, 3:
		prefix = "   "[:ind]
	case 4:
		prefix = "\t"
	}
	text := prefix + "description "
	col := 0
	if ind == 4 {
		col = 8
	} else {
		col = ind
	}
	col += len("description ")

	npieces := vrt.Param("pieces", 1)
	var want []byte
	blank := false
	for p := 0; p < npieces; p++ {
		tag := "p" + strconv.Itoa(p)
		kinds := 3
		if npieces > 1 {
			kinds = 2 // concatenation only joins quoted strings
		}
		kind := vrt.Choice(tag+".kind", kinds)
		if npieces > 1 {
			kind++ // single or double
		}
		switch kind {
		case pieceUnquoted:
			n := 1 + vrt.Choice(tag+".len", M)
			w := vrt.Bytes(tag+".w", n)
			for i, c := range w {
				vrt.Assume(!isTermByte(c))
				vrt.Assume(c != '/' && c != '\'')
				if i == 0 {
					vrt.Assume(c != '+')
				}
			}
			text += string(w)
			want = append(want, w...)
		case pieceSingle:
			n := vrt.Choice(tag+".len", M+1)
			w := vrt.Bytes(tag+".w", n)
			for _, c := range w {
				vrt.Assume(c != '\'')
			}
			text += "'" + string(w) + "'"
			want = append(want, w...)
		case pieceDouble:
			raw := genDoubleContent(tag, M)
			dec, b := specDecode(raw, col)
			blank = blank || b
			text += "\"" + string(raw) + "\""
			want = append(want, dec...)
		}
		if p+1 < npieces {
			text += " + "
			// column of the next piece's opening quote: recompute from the rendered text
			col = 0
			for i := len(text) - 1; i >= 0 && text[i] != '\n'; i-- {
				if text[i] == '\t' {
					col += 8
				} else {
					col++
				}
			}
		}
	}
	text += ";"
	// known finding: a line that is empty after stripping is dropped together with its
	// line break
	vrt.Class("C08-empty-lines-inside-double-quoted-string-are-dropped", blank)
	vrt.Reach("c08.decode.pieces" + strconv.Itoa(npieces))
	tree, err := Parse("in.yang", text, nil)
	if err != nil {
		vrt.Observe("parse-error", text, err.Error())
	}
	vrt.Assert(err == nil, "c08.accepted")
	if err != nil {
		return
	}
	got := tree.Root.Argument().String()
	vrt.Observe("text", text)
	vrt.Observe("arg", got)
	vrt.Assert(vrt.StrEq(got, string(want)), "c08.argument-value")
}

// ---- concatenation of multi-line pieces at different columns

// genLines: a double-quoted content of 1..3 lines; continuation lines are indented by a
// solver-chosen number of blanks around and beyond the quote columns in play.
func genLines(tag string, maxLines int, rich bool) []byte {
	var raw []byte
	if vrt.Bool(tag + ".l0") {
		raw = append(raw, 'a')
	}
	nl := vrt.Choice(tag+".lines", maxLines+1)
	for i := 1; i <= nl; i++ {
		raw = append(raw, '\n')
		widths := []int{0, 3, 8, 13, 17}
		if rich {
			// indentation may start with a tab (8 columns) and hit the quote column exactly
			// (13 = 8+5); the text after it may itself begin with a tab
			widths = []int{0, 3, 5, 8, 13, 17}
			if vrt.Bool(tag + ".tab" + strconv.Itoa(i)) {
				raw = append(raw, '\t')
			}
		}
		k := widths[vrt.Choice(tag+".ind"+strconv.Itoa(i), len(widths))]
		for j := 0; j < k; j++ {
			raw = append(raw, ' ')
		}
		if rich && vrt.Bool(tag+".tabtext"+strconv.Itoa(i)) {
			raw = append(raw, '\t')
		}
		raw = append(raw, 'b')
	}
	return raw
}

// VerifH_C08_Concat: description P1 + P2 [+ P3]; with line breaks and indentation
// between the pieces; every piece decodes by its OWN quote column.
func VerifH_C08_Concat() {
	text := "description "
	np := 2 + vrt.Choice("pieces", vrt.Param("extra", 1)+1)
	var want []byte
	blank := false
	for p := 0; p < np; p++ {
		tag := "p" + strconv.Itoa(p)
		col := 0
		for i := len(text) - 1; i >= 0 && text[i] != '\n'; i-- {
			if text[i] == '\t' {
				col += 8
			} else {
				col++
			}
		}
		raw := genLines(tag, vrt.Param("lines", 1), p == 0)
		if vrt.Bool(tag + ".single") {
			text += "'" + string(raw) + "'"
			want = append(want, raw...)
		} else {
			dec, b := specDecode(raw, col)
			blank = blank || b
			text += "\"" + string(raw) + "\""
			want = append(want, dec...)
		}
		if p+1 < np {
			switch vrt.Choice(tag+".sep", 4) {
			case 0:
				text += " + "
			case 1:
				text += "\n + "
			case 2:
				text += " +\n      "
			default:
				text += "\n\t+ /* c */ "
			}
		}
	}
	text += ";"
	vrt.Class("C08-empty-lines-inside-double-quoted-string-are-dropped", blank)
	vrt.Reach("c08.concat")
	tree, err := Parse("in.yang", text, nil)
	if err != nil {
		vrt.Observe("parse-error", text, err.Error())
	}
	vrt.Assert(err == nil, "c08.concat.accepted")
	if err != nil {
		return
	}
	got := tree.Root.Argument().String()
	vrt.Observe("text", text)
	vrt.Observe("arg", got)
	vrt.Assert(vrt.StrEq(got, string(want)), "c08.concat.argument-value")
	// C10: the same value written in another quoting form (one single-quoted string)
	// gives the same argument
	tree2, err2 := Parse("in.yang", "description '"+string(want)+"';", nil)
	if err2 != nil {
		vrt.Assert(false, "c10.single-quoted-form-accepted")
		return
	}
	vrt.Assert(vrt.StrEq(tree2.Root.Argument().String(), got), "c10.concatenated-form-equals-single-quoted-form")
}


// VerifH_C08_Comments: comments are skipped between tokens whatever they contain, and are
// ordinary text inside quoted strings.  One comment with two symbolic ASCII content
// bytes at each position of `description "a" + 'b' ;`, and the same text inside the
// quotes.
func VerifH_C08_Comments() {
	c := vrt.Bytes("cm", 2)
	for _, b := range c {
		vrt.Assume(vrt.And(b >= 0x20, b < 0x7f))
	}
	var cm string
	if vrt.Bool("line-comment") {
		cm = "//" + string(c) + "\n"
	} else {
		vrt.Assume(vrt.Not(vrt.And(c[0] == '*', c[1] == '/')))
		cm = "/*" + string(c) + "*/"
	}
	pos := vrt.Choice("position", 6)
	parts := []string{"description", " ", "\"a\"", " + ", "'b'", " ;"}
	want := "ab"
	text := ""
	for i, p := range parts {
		if i == pos && pos >= 1 && pos <= 5 {
			text += " " + cm + " "
		}
		text += p
	}
	if pos == 0 {
		// inside the double-quoted piece: ordinary text (no escapes, no quote in it)
		for _, b := range c {
			vrt.Assume(vrt.And(b != '"', b != '\\'))
		}
		vrt.Assume(cm[1] == '*') // a line break inside would bring indentation rules in
		text = "description \"a" + cm + "\" + 'b' ;"
		want = "a" + cm + "b"
	}
	vrt.Reach("c08.comments")
	tree, err := Parse("in.yang", text, nil)
	if err != nil {
		vrt.Observe("parse-error", text, err.Error())
	}
	vrt.Assert(err == nil, "c08.comments.accepted")
	if err != nil {
		return
	}
	got := tree.Root.Argument().String()
	vrt.Observe("text", text, got)
	vrt.Assert(vrt.StrEq(got, want), "c08.comments.argument-value")
}

// VerifH_C08_Escapes: a double-quoted string of U "units" — a plain character or a
// backslash pair — so that escape sequences follow one another at every distance
// (escaped backslash, ordinary text, then another escape ...).
func VerifH_C08_Escapes() {
	U := vrt.Param("U", 3)
	n := 1 + vrt.Choice("units", U)
	var raw []byte
	for i := 0; i < n; i++ {
		tag := "u" + strconv.Itoa(i)
		if vrt.Bool(tag + ".escape") {
			e := vrt.Byte(tag + ".e")
			vrt.Assume(vrt.Or(e == 'n', vrt.Or(e == 't', vrt.Or(e == '"', vrt.Or(e == '\\', e == 'a')))))
			raw = append(raw, '\\', e)
		} else {
			c := vrt.Byte(tag + ".c")
			vrt.Assume(vrt.Or(c == 'a', vrt.Or(c == 'n', vrt.Or(c == 't', c == ' '))))
			raw = append(raw, c)
		}
	}
	text := "description \"" + string(raw) + "\";"
	want, blank := specDecode(raw, len("description "))
	vrt.Class("C08-empty-lines-inside-double-quoted-string-are-dropped", blank)
	vrt.Reach("c08.escapes")
	tree, err := Parse("in.yang", text, nil)
	if err != nil {
		vrt.Observe("parse-error", text, err.Error())
	}
	vrt.Assert(err == nil, "c08.escapes.accepted")
	if err != nil {
		return
	}
	got := tree.Root.Argument().String()
	vrt.Observe("text", text, got)
	vrt.Assert(vrt.StrEq(got, string(want)), "c08.escapes.argument-value")
	// C10: the single-quoted spelling of the decoded value gives the same argument
	// (when the value can be written in single quotes at all)
	for _, b := range want {
		vrt.Assume(b != '\'')
	}
	tree2, err2 := Parse("in.yang", "description '"+string(want)+"';", nil)
	if err2 == nil {
		vrt.Assert(vrt.StrEq(tree2.Root.Argument().String(), got), "c10.escaped-form-equals-single-quoted-form")
	}
}
