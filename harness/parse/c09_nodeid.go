package parse

// C09, schema node identifiers (absolute, descendant, unique) as token sentences, and
// keyword-valued arguments as near-misses of their legal spellings.

import (
	"strconv"

	"github.com/sdcio/yang-parser/vrt"
)

var c09NodeIdTokens = []string{"/", "a", "b1", "p:", ":", " ", "-", ".x", "1", "_"}

// node-identifier = [prefix ":"] identifier
func c09NodeIdentifier(s string) bool {
	k := -1
	for i := 0; i < len(s); i++ {
		if s[i] == ':' {
			if k >= 0 {
				return false
			}
			k = i
		}
	}
	if k < 0 {
		return abnfIdentifier(s)
	}
	return abnfIdentifier(s[:k]) && abnfIdentifier(s[k+1:])
}

// descendant-schema-nodeid = node-identifier *("/" node-identifier)
func c09Descendant(s string) bool {
	start := 0
	for i := 0; i <= len(s); i++ {
		if i == len(s) || s[i] == '/' {
			if !c09NodeIdentifier(s[start:i]) {
				return false
			}
			start = i + 1
		}
	}
	return true
}

// absolute-schema-nodeid = 1*("/" node-identifier)
func c09Absolute(s string) bool {
	return len(s) > 1 && s[0] == '/' && c09Descendant(s[1:])
}

// unique-arg = descendant-schema-nodeid *(sep descendant-schema-nodeid)
func c09Unique(s string) bool {
	n := 0
	start := -1
	for i := 0; i <= len(s); i++ {
		blank := i == len(s) || s[i] == ' '
		if !blank && start < 0 {
			start = i
		}
		if blank && start >= 0 {
			if !c09Descendant(s[start:i]) {
				return false
			}
			n++
			start = -1
		}
	}
	// sep is mandatory white space BETWEEN ids: no leading or trailing blank
	return n > 0 && s[0] != ' ' && s[len(s)-1] != ' '
}

// VerifH_C09_NodeIds
func VerifH_C09_NodeIds() {
	K := vrt.Param("K", 4)
	kind := vrt.Param("kind", 0) // 0 absolute (deviation), 1 descendant (refine), 2 unique
	n := 1 + vrt.Choice("tokens", K)
	s := ""
	for i := 0; i < n; i++ {
		s += c09NodeIdTokens[vrt.Choice("t"+strconv.Itoa(i), len(c09NodeIdTokens))]
	}
	var kw string
	var ok bool
	switch kind {
	case 0:
		kw, ok = "deviation", c09Absolute(s)
	case 1:
		kw, ok = "refine", c09Descendant(s)
	default:
		kw, ok = "unique", c09Unique(s)
		if len(s) > 0 && (s[0] == ' ' || s[len(s)-1] == ' ') {
			// blanks around the whole argument: the ABNF does not allow them, common
			// practice trims them — unspecified, nothing asserted
			vrt.Reach("c09.nodeids.unspecified")
			return
		}
	}
	text := "ext:t { " + kw + " '" + s + "'; }"
	vrt.Reach("c09.nodeids." + kw)
	_, err := Parse("in.yang", text, nil)
	if err != nil {
		vrt.Observe("verdict", text, err.Error())
	} else {
		vrt.Observe("verdict", text, "accepted")
	}
	vrt.Assert((err == nil) == ok, "c09.args["+kw+"].verdict")
}

var c09KeywordArgs = []struct {
	kw    string
	words []string
}{
	{"status", []string{"current", "deprecated", "obsolete"}},
	{"ordered-by", []string{"user", "system"}},
	{"deviate", []string{"not-supported", "add", "replace", "delete"}},
	{"config", []string{"true", "false"}},
	{"yang-version", []string{"1"}},
	{"max-elements", []string{"unbounded"}},
	{"require-instance", []string{"true", "false"}},
}

// VerifH_C09_Keywords: a legal word, or a near-miss of it (one byte replaced by a
// symbolic byte, one symbolic byte inserted or appended, last byte dropped, upper case).
func VerifH_C09_Keywords() {
	a := c09KeywordArgs[vrt.Choice("kw", len(c09KeywordArgs))]
	w := a.words[vrt.Choice("word", len(a.words))]
	s := w
	switch vrt.Choice("mutation", 5) {
	case 0:
	case 1:
		pos := vrt.Choice("pos", len(w))
		b := vrt.Byte("b")
		vrt.Assume(vrt.And(b != '\'', b != 0))
		s = w[:pos] + string([]byte{b}) + w[pos+1:]
	case 2:
		pos := vrt.Choice("pos", len(w)+1)
		b := vrt.Byte("b")
		vrt.Assume(vrt.And(b != '\'', b != 0))
		s = w[:pos] + string([]byte{b}) + w[pos:]
	case 3:
		s = w[:len(w)-1]
	default:
		up := []byte(w)
		pos := vrt.Choice("pos", len(w))
		if up[pos] >= 'a' && up[pos] <= 'z' {
			up[pos] -= 32
		}
		s = string(up)
	}
	ok := false
	for _, v := range a.words {
		ok = vrt.Or(ok, vrt.StrEq(s, v))
	}
	if a.kw == "max-elements" {
		// digits are a different (numeric) form of the same argument: covered by C09_Args
		for i := 0; i < len(s); i++ {
			vrt.Assume(vrt.Not(vrt.And(s[i] >= '0', s[i] <= '9')))
		}
	}
	if a.kw == "config" || a.kw == "require-instance" {
		loose := false
		for _, v := range []string{"1", "t", "T", "TRUE", "True", "0", "f", "F", "FALSE", "False"} {
			loose = vrt.Or(loose, vrt.StrEq(s, v))
		}
		vrt.Class("C09-boolean-arguments-accept-strconv-spellings", loose)
	}
	text := "ext:t { " + a.kw + " '" + s + "'; }"
	vrt.Reach("c09.keywords." + a.kw)
	_, err := Parse("in.yang", text, nil)
	if err != nil {
		vrt.Observe("verdict", text, err.Error())
	} else {
		vrt.Observe("verdict", text, "accepted")
	}
	vrt.Assert(vrt.Iff(err == nil, ok), "c09.args["+a.kw+"].keyword-verdict")
}
