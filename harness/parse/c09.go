package parse

// C09 — statement grammar: cardinality, ordering and argument syntax.

import (
	"strconv"
	"strings"

	"github.com/sdcio/yang-parser/vrt"
)

// ---------------------------------------------------------------- RFC 6020 §7 substatement tables
//
// card: "1" exactly one, "?" 0..1, "*" 0..n, "+" 1..n.  Transcribed from the RFC, not from
// cardinality.go.  Cells on which RFC 6020's tables and ABNF disagree (uses: augment,
// refine) are left out (unspecified).

const dataDefs = "anyxml choice container leaf leaf-list list uses"

func tbl(pairs string) map[string]byte {
	m := map[string]byte{}
	for _, f := range strings.Fields(pairs) {
		k := strings.LastIndexByte(f, ':')
		m[f[:k]] = f[k+1]
	}
	return m
}

func star(names string) string {
	out := ""
	for _, n := range strings.Fields(names) {
		out += n + ":* "
	}
	return out
}

var rfcTables = map[string]map[string]byte{
	"module": tbl(star(dataDefs) + "augment:* contact:? description:? deviation:* extension:* feature:* grouping:* identity:* import:* include:* namespace:1 notification:* organization:? prefix:1 reference:? revision:* rpc:* typedef:* yang-version:?"),
	"submodule": tbl(star(dataDefs) + "augment:* belongs-to:1 contact:? description:? deviation:* extension:* feature:* grouping:* identity:* import:* include:* notification:* organization:? reference:? revision:* rpc:* typedef:* yang-version:?"),
	"import":       tbl("prefix:1 revision-date:?"),
	"include":      tbl("revision-date:?"),
	"belongs-to":   tbl("prefix:1"),
	"revision":     tbl("description:? reference:?"),
	"deviation":    tbl("description:? deviate:+ reference:?"),
	"typedef":      tbl("default:? description:? reference:? status:? type:1 units:?"),
	"type":         tbl("bit:* enum:* length:? path:? pattern:* range:? require-instance:? type:* base:? fraction-digits:?"),
	"container":    tbl(star(dataDefs) + "config:? description:? grouping:* if-feature:* must:* presence:? reference:? status:? typedef:* when:?"),
	"must":         tbl("description:? error-app-tag:? error-message:? reference:?"),
	"leaf":         tbl("config:? default:? description:? if-feature:* mandatory:? must:* reference:? status:? type:1 units:? when:?"),
	"leaf-list":    tbl("config:? description:? if-feature:* max-elements:? min-elements:? must:* ordered-by:? reference:? status:? type:1 units:? when:?"),
	"list":         tbl(star(dataDefs) + "config:? description:? grouping:* if-feature:* key:? max-elements:? min-elements:? must:* ordered-by:? reference:? status:? typedef:* unique:* when:?"),
	"choice":       tbl("anyxml:* case:* config:? container:* default:? description:? if-feature:* leaf:* leaf-list:* list:* mandatory:? reference:? status:? when:?"),
	"case":         tbl(star(dataDefs) + "description:? if-feature:* reference:? status:? when:?"),
	"anyxml":       tbl("config:? description:? if-feature:* mandatory:? must:* reference:? status:? when:?"),
	"grouping":     tbl(star(dataDefs) + "description:? grouping:* reference:? status:? typedef:*"),
	"rpc":          tbl("description:? grouping:* if-feature:* input:? output:? reference:? status:? typedef:*"),
	"input":        tbl(star(dataDefs) + "grouping:* typedef:*"),
	"output":       tbl(star(dataDefs) + "grouping:* typedef:*"),
	"notification": tbl(star(dataDefs) + "description:? grouping:* if-feature:* reference:? status:? typedef:*"),
	"augment":      tbl("anyxml:* case:* choice:* container:* leaf:* leaf-list:* list:* uses:* description:? if-feature:* reference:? status:? when:?"),
	"identity":     tbl("base:? description:? reference:? status:?"),
	"extension":    tbl("argument:? description:? reference:? status:?"),
	"argument":     tbl("yin-element:?"),
	"feature":      tbl("description:? if-feature:* status:? reference:?"),
	"enum":         tbl("description:? reference:? status:? value:?"),
	"bit":          tbl("description:? reference:? status:? position:?"),
	"range":        tbl("description:? error-app-tag:? error-message:? reference:?"),
	"length":       tbl("description:? error-app-tag:? error-message:? reference:?"),
	"pattern":      tbl("description:? error-app-tag:? error-message:? reference:?"),
}

// statements that need something beneath them to be valid at all (the minimal set)
var baseline = map[string][]string{
	"module": {"namespace", "prefix"}, "submodule": {"belongs-to"}, "import": {"prefix"},
	"belongs-to": {"prefix"}, "typedef": {"type"}, "leaf": {"type"}, "leaf-list": {"type"},
	"list": {"leaf", "key"}, "input": {"leaf"}, "output": {"leaf"}, "deviation": {"deviate"},
}

// every RFC 6020 statement keyword
var allKeywords = strings.Fields("anyxml argument augment base belongs-to bit case choice config contact container default description deviate deviation enum error-app-tag error-message extension feature fraction-digits grouping identity if-feature import include input key leaf leaf-list length list mandatory max-elements min-elements module must namespace notification ordered-by organization output path pattern position prefix presence range reference refine require-instance revision revision-date rpc status submodule type typedef unique units uses value when yang-version yin-element")

// every keyword is a parent: those without an RFC substatement table are terminal
// statements (description, prefix, key, ...), under which only extension statements may
// appear.
func sortedParents() []string {
	var ps []string
	for _, k := range allKeywords {
		if _, ok := rfcTables[k]; ok {
			ps = append(ps, k)
			continue
		}
		// no table here: 'deviate' and 'refine' depend on their argument / target, 'when'
		// has substatements only since YANG 1.1, the RFC table and ABNF of 'uses' disagree — unspecified, not generated
		if k != "deviate" && k != "refine" && k != "when" && k != "uses" {
			ps = append(ps, k)
		}
	}
	return ps
}

func mkNode(t *Tree, kw string, children []Node) *node {
	nt := NodeTypeFromName(kw, "")
	return newNodeByType(nt, t, item{typ: itemString, val: kw}, "", children, OpenScope(nil), t.argInterner)
}

// VerifH_C09_Table: parent x child keyword x multiplicity against the RFC tables.
func VerifH_C09_Table() {
	parents := sortedParents()
	pk := parents[vrt.Choice("parent", len(parents))]
	// child keyword: any RFC keyword, an unprefixed unknown keyword, a prefixed extension
	cands := append(append([]string(nil), allKeywords...), "frobnicate", "ext:thing")
	ck := cands[vrt.Choice("child", len(cands))]
	mult := vrt.Choice("mult", 3) // 0, 1 or 2 extra occurrences
	t := New("in.yang", nil)
	var kids []Node
	have := 0
	for _, b := range baseline[pk] {
		if b == ck {
			have++
		}
		kids = append(kids, mkNode(t, b, nil))
	}
	for i := 0; i < mult; i++ {
		kids = append(kids, mkNode(t, ck, nil))
	}
	count := have + mult
	parent := mkNode(t, pk, kids)
	err := parent.checkCardinality()

	table := rfcTables[pk]
	c, allowed := table[ck]
	// the uses table is ambiguous in RFC 6020: not asserted
	if ck == "ext:thing" {
		allowed, c = true, '*'
	}
	ok := true
	switch {
	case count == 0:
		ok = !(allowed && (c == '1' || c == '+'))
	case !allowed:
		ok = false
	case count > 1 && (c == '1' || c == '?'):
		ok = false
	}
	// is the keyword known at all?  (keyword -> node type -> keyword round trip)
	if ck != "frobnicate" && ck != "ext:thing" {
		nt := NodeTypeFromName(ck, "")
		vrt.Assert(nt != NodeUnknown && nt.String() == ck, "c09.table.keyword-known["+ck+"]")
	}
	vrt.Class("C09-unprefixed-unknown-keyword-accepted-anywhere", ck == "frobnicate" && mult > 0)
	vrt.Class("C09-submodule-organization-may-repeat", pk == "submodule" && ck == "organization" && count > 1)
	vrt.Class("C09-list-without-key-deferred-to-compiler", false)
	vrt.Reach("c09.table." + pk)
	if err != nil {
		vrt.Observe("verdict", pk, ck, count, err.Error())
	} else {
		vrt.Observe("verdict", pk, ck, count, "accepted")
	}
	vrt.Assert((err == nil) == ok, "c09.table.verdict")
	if err != nil && count > 0 && !ok {
		vrt.Assert(strings.Contains(err.Error(), ck), "c09.table.error-names-offending-statement")
	}
}

// ---------------------------------------------------------------- sections and revisions

var c09Dates = []string{"2001-01-01", "2002-02-02", "2003-03-03"}

// VerifH_C09_Sections: a module with K extra statements in nondeterministic order.
func VerifH_C09_Sections() {
	K := vrt.Param("K", 3)
	type sect struct {
		text    string
		section int // 0 header, 1 linkage, 2 meta, 3 revision, 4 body, -1 extension (anywhere)
		once    string
		date    int
	}
	kinds := []sect{
		{"yang-version 1;", 0, "yang-version", -1},
		{"import x { prefix x; }", 1, "", -1},
		{"organization 'o';", 2, "organization", -1},
		{"contact 'c';", 2, "contact", -1},
		{"revision D;", 3, "", 0},
		{"container c;", 4, "", -1},
		{"ext:note 'n';", -1, "", -1},
	}
	n := vrt.Choice("n", K+1)
	text := "module m { namespace 'urn:m'; prefix m; "
	prev := 0
	ok := true
	seen := map[string]bool{}
	lastDate := 99
	for i := 0; i < n; i++ {
		k := kinds[vrt.Choice("s"+strconv.Itoa(i), len(kinds))]
		st := k.text
		if k.date >= 0 {
			d := vrt.Choice("d"+strconv.Itoa(i), len(c09Dates))
			st = "revision " + c09Dates[d] + ";"
			if d >= lastDate { // dates must be strictly descending
				ok = false
			}
			lastDate = d
		}
		text += st + " "
		if k.section >= 0 {
			if k.section < prev {
				ok = false
			}
			if k.section > prev {
				prev = k.section
			}
		}
		if k.once != "" {
			if seen[k.once] {
				ok = false
			}
			seen[k.once] = true
		}
	}
	text += "}"
	vrt.Reach("c09.sections.n" + strconv.Itoa(n))
	_, err := Parse("in.yang", text, nil)
	if err != nil {
		vrt.Observe("verdict", text, err.Error())
	} else {
		vrt.Observe("verdict", text, "accepted")
	}
	vrt.Assert((err == nil) == ok, "c09.sections.verdict")
}

// ---------------------------------------------------------------- typed arguments (RFC 6020 §12 ABNF)

func isAlpha(c byte) bool { return (c >= 'a' && c <= 'z') || (c >= 'A' && c <= 'Z') }
func isDigit(c byte) bool { return c >= '0' && c <= '9' }

func abnfIdentifier(s string) bool {
	if len(s) == 0 || !(isAlpha(s[0]) || s[0] == '_') {
		return false
	}
	for i := 1; i < len(s); i++ {
		c := s[i]
		if !(isAlpha(c) || isDigit(c) || c == '_' || c == '-' || c == '.') {
			return false
		}
	}
	if len(s) >= 3 && (s[0] == 'x' || s[0] == 'X') && (s[1] == 'm' || s[1] == 'M') && (s[2] == 'l' || s[2] == 'L') {
		return false
	}
	return true
}

func abnfNonNegInt(s string) bool {
	if s == "0" {
		return true
	}
	if len(s) == 0 || s[0] < '1' || s[0] > '9' {
		return false
	}
	for i := 1; i < len(s); i++ {
		if !isDigit(s[i]) {
			return false
		}
	}
	return true
}

func hasHighByte(s string) bool {
	r := false
	for i := 0; i < len(s); i++ {
		r = vrt.Or(r, s[i] >= 0x80)
	}
	return r
}

func goLiteralForm(s string) bool {
	r := false
	if len(s) > 1 {
		r = vrt.Or(s[0] == '0', vrt.Or(s[0] == '+', vrt.And(s[0] == '-', s[1] == '0')))
		if len(s) > 2 {
			r = vrt.Or(r, vrt.And(s[0] == '-', vrt.And(s[1] == '0', true)))
		}
	}
	for i := 0; i < len(s); i++ {
		r = vrt.Or(r, s[i] == '_')
	}
	return r
}

var argKinds = []string{"identifier", "identifier-ref", "boolean", "status", "ordered-by", "uint", "int", "max-elements", "fraction-digits", "key"}

// VerifH_C09_Args: `ext:t { <kw> '<ARG>'; }` for every ARG of <= N bytes.
func VerifH_C09_Args() {
	N := vrt.Param("N", 3)
	kind := vrt.Param("kind", 0)
	n := vrt.Choice("len", N+1)
	bs := vrt.Bytes("a", n)
	for _, c := range bs {
		vrt.Assume(c != '\'')
	}
	s := string(bs)
	var kw string
	var ok bool
	switch argKinds[kind] {
	case "identifier":
		kw, ok = "prefix", abnfIdentifier(s)
		vrt.Class("C09-identifier-accepts-latin1-letters", hasHighByte(s))
	case "identifier-ref":
		kw = "base"
		k := strings.IndexByte(s, ':')
		if k < 0 {
			ok = abnfIdentifier(s)
		} else {
			ok = abnfIdentifier(s[:k]) && abnfIdentifier(s[k+1:])
		}
		vrt.Class("C09-identifier-accepts-latin1-letters", hasHighByte(s))
	case "boolean":
		kw, ok = "mandatory", s == "true" || s == "false"
		loose := false
		for _, v := range []string{"1", "t", "T", "TRUE", "True", "0", "f", "F", "FALSE", "False"} {
			loose = vrt.Or(loose, vrt.StrEq(s, v))
		}
		vrt.Class("C09-boolean-arguments-accept-strconv-spellings", loose)
	case "status":
		kw, ok = "status", s == "current" || s == "obsolete" || s == "deprecated"
	case "ordered-by":
		kw, ok = "ordered-by", s == "user" || s == "system"
	case "uint":
		kw, ok = "min-elements", abnfNonNegInt(s)
		vrt.Class("C09-integer-arguments-accept-go-literal-forms", goLiteralForm(s))
	case "int":
		kw = "value"
		if len(s) > 0 && s[0] == '-' {
			ok = abnfNonNegInt(s[1:])
		} else {
			ok = abnfNonNegInt(s)
		}
		vrt.Class("C09-integer-arguments-accept-go-literal-forms", goLiteralForm(s))
	case "max-elements":
		kw, ok = "max-elements", s == "unbounded" || (abnfNonNegInt(s) && s != "0")
		vrt.Class("C09-integer-arguments-accept-go-literal-forms", vrt.Or(goLiteralForm(s), vrt.StrEq(s, "0")))
	case "fraction-digits":
		kw = "fraction-digits"
		ok = abnfNonNegInt(s) && len(s) <= 2 && s != "0" && (len(s) == 1 || (s[0] == '1' && s[1] <= '8'))
		vrt.Class("C09-integer-arguments-accept-go-literal-forms", goLiteralForm(s))
	case "key":
		kw = "key"
		// key-arg = node-identifier *(sep node-identifier)
		fields := strings.FieldsFunc(s, func(r rune) bool { return r == ' ' || r == '\t' || r == '\n' || r == '\r' })
		ok = len(fields) > 0
		for _, f := range fields {
			k := strings.IndexByte(f, ':')
			if k < 0 {
				ok = ok && abnfIdentifier(f)
			} else {
				ok = ok && abnfIdentifier(f[:k]) && abnfIdentifier(f[k+1:])
			}
		}
		vrt.Class("C09-key-argument-not-checked-lexically", len(fields) > 0)
	}
	text := "ext:t { " + kw + " '" + s + "'; }"
	vrt.Reach("c09.args." + argKinds[kind])
	_, err := Parse("in.yang", text, nil)
	if err != nil {
		vrt.Observe("verdict", text, err.Error())
	} else {
		vrt.Observe("verdict", text, "accepted")
	}
	vrt.Assert((err == nil) == ok, "c09.args["+argKinds[kind]+"].verdict")
}

// VerifH_C09_Date: date-arg = 4DIGIT "-" 2DIGIT "-" 2DIGIT, all ten bytes symbolic.
func VerifH_C09_Date() {
	n := 9 + vrt.Choice("len", 3) // 9..11
	bs := vrt.Bytes("d", n)
	for _, c := range bs {
		// digits, the separator, a sign, one letter and a blank: every class the date
		// parser distinguishes (arbitrary other bytes only multiply the paths of
		// strconv.Quote in the error message)
		vrt.Assume(vrt.Or(vrt.And(c >= '0', c <= '9'), vrt.Or(c == '-', vrt.Or(c == '+', vrt.Or(c == 'x', c == ' ')))))
	}
	s := string(bs)
	ok := len(s) == 10
	if ok {
		for i := 0; i < 10; i++ {
			if i == 4 || i == 7 {
				ok = ok && s[i] == '-'
			} else {
				ok = ok && isDigit(s[i])
			}
		}
	}
	plus := false
	for i := 0; i < len(s); i++ {
		plus = vrt.Or(plus, s[i] == '+')
	}
	if len(s) == 10 {
		plus = vrt.Or(plus, s[8] == '-') // "-2" as day field
	}
	vrt.Class("C09-date-fields-accept-plus-sign", plus)
	// the argument parser is called directly: ten arbitrary bytes through the lexer
	// would only multiply paths by the lexer's byte classes
	vrt.Reach("c09.date")
	d := &DateArg{arg: arg(s)}
	err := d.Parse()
	vrt.Assert((err == nil) == ok, "c09.args[date].verdict")
}
