package parse

// C07 — YANG parsing is total and leaves nothing running.

import (
	"strconv"

	"github.com/sdcio/yang-parser/vrt"
)

// errorLocation parses "yang: <name>:<line>:<col>: ..." and returns line and column.
func errorLocation(msg, name string) (line, col int, ok bool) {
	// "<name>:<line>:<col>: ..." optionally preceded by "yang: "
	head := name + ":"
	if len(msg) >= 6 && msg[:6] == "yang: " {
		msg = msg[6:]
	}
	if len(msg) < len(head) || msg[:len(head)] != head {
		return 0, 0, false
	}
	i := len(head)
	num := func() (int, bool) {
		st := i
		v := 0
		for i < len(msg) && msg[i] >= '0' && msg[i] <= '9' {
			v = v*10 + int(msg[i]-'0')
			i++
		}
		return v, i > st
	}
	l, ok1 := num()
	if !ok1 || i >= len(msg) || msg[i] != ':' {
		return 0, 0, false
	}
	i++
	c, ok2 := num()
	if !ok2 || i >= len(msg) || msg[i] != ':' {
		return 0, 0, false
	}
	return l, c, true
}

func checkParseOutcome(text string, id string) {
	var tree *Tree
	var err error
	ok, ptxt := vrt.NoPanic(func() {
		tree, err = Parse("in.yang", text, nil)
	})
	if !ok {
		vrt.Observe("panic", ptxt)
	}
	vrt.Assert(ok, id+".no-panic")
	if !ok {
		return
	}
	if err != nil {
		msg := err.Error()
		vrt.Observe("error", msg)
		line, col, okLoc := errorLocation(msg, "in.yang")
		vrt.Assert(okLoc, id+".error-names-input-line-column")
		if okLoc {
			// line and column must lie inside the text
			lines := 1
			for i := 0; i < len(text); i++ {
				if text[i] == '\n' {
					lines++
				}
			}
			vrt.Assert(line >= 1 && line <= lines, id+".error-line-inside-text")
			// length of that line
			cur, start := 1, 0
			for i := 0; i < len(text) && cur < line; i++ {
				if text[i] == '\n' {
					cur++
					start = i + 1
				}
			}
			end := start
			for end < len(text) && text[end] != '\n' {
				end++
			}
			vrt.Assert(col >= 0 && col <= end-start, id+".error-column-inside-line")
		}
		vrt.Reach("c07.rejected")
	} else {
		vrt.Assert(tree != nil && tree.Root != nil, id+".accepted-has-root")
		vrt.Reach("c07.accepted")
	}
	live := vrt.LiveGoroutines()
	vrt.Observe("live", live)
	vrt.Assert(live == 0, id+".no-goroutine-left")
}

// VerifH_C07_ParseBytes: every byte string of length 0..N.
func VerifH_C07_ParseBytes() {
	N := vrt.Param("N", 2)
	n := vrt.Choice("len", N+1)
	text := string(vrt.Bytes("s", n))
	vrt.Reach("c07.bytes.len" + strconv.Itoa(n))
	checkParseOutcome(text, "c07.bytes")
}

// every way a text can end inside a token, string, comment or block: well-formed texts
// cut at every byte position, optionally followed by up to two arbitrary bytes.
var c07Texts = []string{
	"module m {\n  namespace \"urn:m\"; // line comment\n  prefix m;\n  /* block\n comment */ leaf l {\n    type string;\n    description 'one' + \"two\\n   three \\\" \\\\\";\n  }\n}\n",
	"submodule s { belongs-to m { prefix m; } x:ext \"a\"\n + 'b' { y:z; } container c { presence \"p;{\"; } }",
	"a 'unterminated\n{ /* open",
}

// VerifH_C07_Truncations
func VerifH_C07_Truncations() {
	t := c07Texts[vrt.Choice("text", len(c07Texts))]
	cut := vrt.Choice("cut", len(t)+1)
	text := t[:cut]
	extra := vrt.Choice("extra", vrt.Param("extra", 1)+1)
	text += string(vrt.Bytes("x", extra))
	vrt.Reach("c07.truncations")
	checkParseOutcome(text, "c07.cut")
}
