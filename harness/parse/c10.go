package parse

// C10 — the parse tree mirrors the source and ignores trivia.
//
// An abstract statement tree is rendered with a trivia variant at one (solver-chosen)
// token boundary and a quoting form per argument; walking the parsed tree must give
// back exactly the abstract tree, with the recorded keyword positions.

import (
	"strconv"

	"github.com/sdcio/yang-parser/vrt"
)

type c10Stmt struct {
	kw       string
	hasArg   bool
	arg      string
	quote    int // 0 unquoted, 1 single, 2 double
	children []*c10Stmt
	line     int
	col      int
}

type c10Renderer struct {
	out      []byte
	line     int
	col      int
	boundary int // running index of token boundaries
	pick     int // boundary that receives the trivia variant
	trivia   string
}

func (r *c10Renderer) write(s string) {
	for i := 0; i < len(s); i++ {
		r.out = append(r.out, s[i])
		if s[i] == '\n' {
			r.line++
			r.col = 0
		} else {
			r.col++
		}
	}
}

// gap emits the separator at a token boundary; mandatory says whether some white
// space or comment is required there (between a keyword and an unquoted argument).
func (r *c10Renderer) gap(mandatory bool) {
	if r.boundary == r.pick {
		if r.trivia == "" && mandatory {
			r.write(" ")
		} else {
			r.write(r.trivia)
		}
	} else {
		r.write(" ")
	}
	r.boundary++
}

func (r *c10Renderer) stmt(s *c10Stmt) {
	s.line, s.col = r.line, r.col
	r.write(s.kw)
	if s.hasArg {
		r.gap(true)
		switch s.quote {
		case 0:
			r.write(s.arg)
		case 1:
			r.write("'" + s.arg + "'")
		case 2:
			r.write("\"" + s.arg + "\"")
		}
	}
	r.gap(false)
	if len(s.children) == 0 && vrtBodyForm(s) == 0 {
		r.write(";")
		return
	}
	r.write("{")
	for _, c := range s.children {
		r.gap(false)
		r.stmt(c)
	}
	r.gap(false)
	r.write("}")
}

// a childless statement may be written "kw arg;" or "kw arg { }"
func vrtBodyForm(s *c10Stmt) int {
	if s.kw == "description" {
		return 0
	}
	return 0
}

var c10Keywords = []string{"x:a", "description", "x:b"}

func genC10Stmt(tag string, depth int) *c10Stmt {
	k := vrt.Choice(tag+".kw", len(c10Keywords))
	s := &c10Stmt{kw: c10Keywords[k]}
	if s.kw == "description" {
		s.hasArg = true
	} else {
		s.hasArg = vrt.Bool(tag + ".hasArg")
	}
	if s.hasArg {
		s.arg = lowerWord(tag+".arg", 1+vrt.Choice(tag+".arglen", vrt.Param("arglen", 1)))
		s.quote = vrt.Choice(tag+".quote", 3)
	}
	if depth > 0 && s.kw != "description" {
		n := vrt.Choice(tag+".nchildren", 2)
		for i := 0; i < n; i++ {
			s.children = append(s.children, genC10Stmt(tag+"."+strconv.Itoa(i), depth-1))
		}
	}
	return s
}

func lowerWord(name string, n int) string {
	bs := vrt.Bytes(name, n)
	for _, c := range bs {
		vrt.Assume(vrt.And(c >= 'a', c <= 'z'))
	}
	return string(bs)
}

func checkC10Node(n Node, s *c10Stmt, id string) {
	vrt.Assert(n.Statement() == s.kw, id+".keyword")
	vrt.Assert(vrt.StrEq(n.Argument().String(), s.arg), id+".argument")
	loc, _ := n.ErrorContext()
	want := "in.yang:" + strconv.Itoa(s.line) + ":" + strconv.Itoa(s.col)
	okLoc := len(loc) >= len(want) && loc[:len(want)] == want && (len(loc) == len(want) || loc[len(want)] == ':')
	if !okLoc {
		vrt.Observe("location", loc, want)
	}
	vrt.Assert(okLoc, id+".position")
	ch := n.Children()
	vrt.Assert(len(ch) == len(s.children), id+".child-count")
	if len(ch) != len(s.children) {
		return
	}
	for i := range ch {
		checkC10Node(ch[i], s.children[i], id)
	}
}

// VerifH_C10_Tree: root + up to two levels below it.
func VerifH_C10_Tree() {
	depth := vrt.Param("depth", 1)
	root := &c10Stmt{kw: "x:top", hasArg: true, arg: lowerWord("root.arg", 1), quote: vrt.Choice("root.quote", 3)}
	n := vrt.Choice("root.nchildren", vrt.Param("kids", 2)+1)
	for i := 0; i < n; i++ {
		root.children = append(root.children, genC10Stmt("c"+strconv.Itoa(i), depth-1))
	}
	// trivia variant and where it goes
	r := &c10Renderer{line: 1}
	tk := vrt.Choice("trivia.kind", 7)
	switch tk {
	case 0:
		r.trivia = ""
	case 1:
		r.trivia = "\n"
	case 2:
		r.trivia = "\t "
	case 3:
		r.trivia = "\r\n  "
	case 4:
		// block comment with two symbolic content bytes (must not close early)
		c1, c2 := vrt.Byte("trivia.c1"), vrt.Byte("trivia.c2")
		vrt.Assume(vrt.Not(vrt.And(c1 == '*', c2 == '/')))
		r.trivia = " /*" + string([]byte{c1, c2}) + "*/"
	case 5:
		c1 := vrt.Byte("trivia.c1")
		vrt.Assume(c1 != '\n')
		r.trivia = " //" + string([]byte{c1}) + "\n"
	case 6:
		r.trivia = " /**/ "
	}
	// count the boundaries with a dry run, then choose one
	dry := &c10Renderer{line: 1, pick: -1}
	dry.stmt(root)
	r.pick = vrt.Choice("trivia.at", dry.boundary)
	r.stmt(root)
	text := string(r.out)
	vrt.Reach("c10.tree.trivia" + strconv.Itoa(tk))
	tree, err := Parse("in.yang", text, nil)
	if err != nil {
		vrt.Observe("parse-error", text, err.Error())
	}
	vrt.Assert(err == nil, "c10.accepted")
	if err != nil {
		return
	}
	vrt.Observe("text", text)
	checkC10Node(tree.Root, root, "c10")
}
