package parse

// C09, range and length arguments: every sentence of up to K tokens over an alphabet
// that contains every lexical element of range-arg / length-arg (RFC 6020 §12) and a
// few that do not belong, against an independent recursive-descent recogniser of the
// ABNF.  Digits are symbolic bytes.

import (
	"strconv"

	"github.com/sdcio/yang-parser/vrt"
)

var c09RangeTokens = []string{"D", "0", "..", "|", " ", "min", "max", "-", ".", "x"}

type c09Scan struct {
	s string
	i int
}

func (p *c09Scan) skip() {
	for p.i < len(p.s) && (p.s[p.i] == ' ' || p.s[p.i] == '\t' || p.s[p.i] == '\n' || p.s[p.i] == '\r') {
		p.i++
	}
}

func (p *c09Scan) lit(t string) bool {
	if len(p.s)-p.i >= len(t) && p.s[p.i:p.i+len(t)] == t {
		p.i += len(t)
		return true
	}
	return false
}

// boundary = min / max / integer-value / decimal-value (range) or
// non-negative-integer-value (length)
func (p *c09Scan) boundary(length bool) bool {
	if p.lit("min") || p.lit("max") {
		return true
	}
	if !length && p.i < len(p.s) && p.s[p.i] == '-' {
		p.i++
	}
	if p.i >= len(p.s) || !isDigit(p.s[p.i]) {
		return false
	}
	if p.s[p.i] == '0' {
		p.i++
	} else {
		for p.i < len(p.s) && isDigit(p.s[p.i]) {
			p.i++
		}
	}
	if !length && p.i+1 < len(p.s) && p.s[p.i] == '.' && isDigit(p.s[p.i+1]) {
		p.i++
		for p.i < len(p.s) && isDigit(p.s[p.i]) {
			p.i++
		}
	}
	return true
}

// range-arg = range-part *(optsep "|" optsep range-part)
// range-part = range-boundary [optsep ".." optsep range-boundary]
func abnfRangeArg(s string, length bool) bool {
	p := &c09Scan{s: s}
	for {
		if !p.boundary(length) {
			return false
		}
		save := p.i
		p.skip()
		if p.lit("..") {
			p.skip()
			if !p.boundary(length) {
				return false
			}
			save = p.i
			p.skip()
		}
		if p.i == len(p.s) {
			return save == len(p.s) // no trailing separator
		}
		if !p.lit("|") {
			return false
		}
		p.skip()
	}
}

// what the parser checks for a range at this pin: after deleting blanks, every
// '|'-separated part has at most one ".." (the boundary texts are left to the compiler)
func c09AtMostOneDotDotPerPart(s string) bool {
	dots := 0
	i := 0
	for i < len(s) {
		switch {
		case s[i] == '|':
			dots = 0
			i++
		case s[i] == ' ':
			i++
		case s[i] == '.':
			// count maximal-munch ".." the way strings.Split does on the blank-free text
			j := i + 1
			for j < len(s) && s[j] == ' ' {
				j++
			}
			if j < len(s) && s[j] == '.' {
				dots++
				if dots > 1 {
					return false
				}
				i = j + 1
			} else {
				i++
			}
		default:
			i++
		}
	}
	return true
}

// a boundary that starts with '0' and goes on (octal / 0x / 0b forms of strconv base 0)
func c09ZeroLedBoundary(s string) bool {
	start := true
	for i := 0; i < len(s); i++ {
		if start && s[i] == '0' && i+1 < len(s) && s[i+1] != '.' && s[i+1] != '|' {
			return true
		}
		start = s[i] == '|' || (s[i] == '.' && i > 0 && s[i-1] == '.')
	}
	return false
}

func c09Contains(s, t string) bool {
	for i := 0; i+len(t) <= len(s); i++ {
		if s[i:i+len(t)] == t {
			return true
		}
	}
	return false
}

// VerifH_C09_RangeLength
func VerifH_C09_RangeLength() {
	K := vrt.Param("K", 4)
	length := vrt.Param("length", 0) == 1
	n := 1 + vrt.Choice("tokens", K)
	s := ""
	for i := 0; i < n; i++ {
		t := c09RangeTokens[vrt.Choice("t"+strconv.Itoa(i), len(c09RangeTokens))]
		if t == "D" {
			d := vrt.Byte("digit" + strconv.Itoa(i))
			vrt.Assume(vrt.And(d >= '1', d <= '9'))
			t = string([]byte{d})
		}
		s += t
	}
	ok := abnfRangeArg(s, length)
	kw := "range"
	if length {
		kw = "length"
	}
	text := "ext:t { " + kw + " '" + s + "'; }"
	vrt.Reach("c09.rangelength." + kw)
	_, err := Parse("in.yang", text, nil)
	if err != nil {
		vrt.Observe("verdict", text, err.Error())
	} else {
		vrt.Observe("verdict", text, "accepted")
	}
	if !length {
		// known: the parser does not look at the boundary texts of a range at all
		vrt.Class("C09-range-boundaries-not-checked-by-parser", c09AtMostOneDotDotPerPart(s))
	} else {
		// known: blanks are deleted everywhere before parsing ('1 1' is read as 11), and
		// the boundaries go through strconv.ParseUint base 0 (leading zeros, 0x..)
		stripped := ""
		for i := 0; i < len(s); i++ {
			if s[i] != ' ' {
				stripped += s[i : i+1]
			}
		}
		vrt.Class("C09-length-blanks-deleted-anywhere", stripped != s && abnfRangeArg(stripped, true))
		vrt.Class("C09-integer-arguments-accept-go-literal-forms", c09ZeroLedBoundary(stripped))
		// known: 'min' is only recognised as a lower and 'max' as an upper boundary
		vrt.Class("C09-length-max-as-lower-or-min-as-upper-rejected", c09Contains(stripped, "max..") || c09Contains(stripped, "..min"))
	}
	vrt.Assert((err == nil) == ok, "c09.args["+kw+"].verdict")
}
