package encoding

// C19, decoding side: the repository's schema-directed conversion runs on an ARBITRARY
// decoded JSON document of bounded shape (what encoding/json or rfc7951 can hand over:
// nil, bool, number, string, array, object), built from solver-chosen kinds, member
// names and string bytes.  The generic byte-level JSON scanners are library code and are
// not part of this harness.

import (
	"strconv"

	"github.com/sdcio/yang-parser/data/datanode"
	"github.com/sdcio/yang-parser/schema"
	"github.com/sdcio/yang-parser/vrt"
)

var c19Names = []string{"s", "u8", "d", "e", "b", "ll", "l", "k", "v", "zz"}
var c19Nums = []float64{0, 1.5, 255, 256, -1, 1e19, 0.125}

var c19Budget, c19StrLen int

// c19Value builds an arbitrary decoded-JSON value; containers are only available while
// the node budget lasts.
func c19Value(tag string) interface{} {
	kinds := 4
	if c19Budget > 0 {
		kinds = 6
	}
	c19Budget--
	switch vrt.Choice(tag+".kind", kinds) {
	case 0:
		return nil
	case 1:
		return vrt.Bool(tag + ".bool")
	case 2:
		return c19Nums[vrt.Choice(tag+".num", len(c19Nums))]
	case 3:
		return vrt.String(tag+".str", vrt.Choice(tag+".len", c19StrLen+1))
	case 4:
		n := vrt.Choice(tag+".n", 3)
		l := make([]interface{}, 0, n)
		for i := 0; i < n; i++ {
			l = append(l, c19Value(tag+"["+strconv.Itoa(i)+"]"))
		}
		return l
	default:
		n := vrt.Choice(tag+".members", 3)
		m := map[string]interface{}{}
		for i := 0; i < n; i++ {
			name := c19Names[vrt.Choice(tag+".name"+strconv.Itoa(i), len(c19Names))]
			m[name] = c19Value(tag + "." + name)
		}
		return m
	}
}

// conforms: every node of the decoded tree exists in the schema and every leaf value is
// accepted by its type.
func c19Conforms(sn schema.Node, n datanode.DataNode, path []string) bool {
	switch sn.(type) {
	case schema.Leaf, schema.LeafList, schema.LeafValue:
		for _, v := range n.YangDataValuesNoSorting() {
			if sn.Validate(nil, path, []string{v}) != nil {
				return false
			}
		}
		return len(n.YangDataChildrenNoSorting()) == 0
	}
	for _, c := range n.YangDataChildrenNoSorting() {
		csn := sn.Child(c.YangDataName())
		if csn == nil {
			return false
		}
		if !c19Conforms(csn, c, append(path, c.YangDataName())) {
			return false
		}
	}
	return true
}

// VerifH_C19_DecodeTotal
func VerifH_C19_DecodeTotal() {
	ms, err := c19Schema()
	if err != nil {
		vrt.Assert(false, "c19.schema-compiles")
		return
	}
	c19Budget = vrt.Param("nodes", 1)
	c19StrLen = vrt.Param("strlen", 1)
	// the arbitrary value V sits below a concrete context so that every schema node kind
	// (incl. list entries and list keys) receives every value shape within the budget
	var doc, v interface{}
	ctx := vrt.Choice("context", 9)
	if only := vrt.Param("context", -1); only >= 0 {
		vrt.Assume(ctx == only) // thorough tier: longer strings in one context at a time
	}
	if ctx != 8 {
		v = c19Value("V")
	}
	var qleaf, qval string
	switch ctx {
	case 8:
		// identityref / union leaves given "<prefix><suffix>": RFC 7951 §6.8 lets the
		// decoder fall back to the simple form of an identity qualified with the leaf's own
		// module; nothing else may be rewritten
		qleaf = []string{"idr", "un", "un2"}[vrt.Choice("qleaf", 3)]
		qval = []string{"", "m:", "m2:", "zz:"}[vrt.Choice("qprefix", 4)]
		switch vrt.Choice("qsuffix", 4) {
		case 0:
			qval += "local-id"
		case 1:
			qval += "remote-id"
		case 2:
			qval += "m2:remote-id"
		default:
			qval += vrt.String("qsym", 1+vrt.Choice("qlen", 2))
		}
		doc = map[string]interface{}{"top": map[string]interface{}{qleaf: qval}}
	case 0:
		doc = v
	case 1:
		doc = map[string]interface{}{"top": v}
	case 2:
		doc = map[string]interface{}{"top": map[string]interface{}{"l": v}}
	case 3:
		doc = map[string]interface{}{"top": map[string]interface{}{"l": []interface{}{v}}}
	case 4:
		doc = map[string]interface{}{"top": map[string]interface{}{"l": []interface{}{map[string]interface{}{"k": v}}}}
	case 5:
		doc = map[string]interface{}{"top": map[string]interface{}{"l": []interface{}{map[string]interface{}{"k": "a", "v": v}}}}
	case 6:
		doc = map[string]interface{}{"top": map[string]interface{}{"ll": v}}
	default:
		leaf := []string{"s", "u8", "d", "e", "b", "i64", "u64"}[vrt.Choice("leaf", 7)]
		doc = map[string]interface{}{"top": map[string]interface{}{leaf: v}}
	}
	var tree datanode.DataNode
	var derr error
	ok, ptxt := vrt.NoPanic(func() {
		jr := JSONReader{decodedName: ms.Name(), decodedMsg: doc}
		tree, derr = convertToDataNode([]string{}, ms.Name(), &jr, ms)
	})
	vrt.Reach("c19.decode.context" + strconv.Itoa(ctx))
	if !ok {
		vrt.Observe("panic", ptxt)
	}
	vrt.Assert(ok, "c19.decode.no-panic")
	if !ok {
		return
	}
	vrt.Assert((derr == nil) != (tree == nil), "c19.decode.tree-xor-error")
	if derr != nil || tree == nil {
		return
	}
	vrt.Reach("c19.decode.accepted")
	vrt.Assert(c19Conforms(ms, tree, nil), "c19.decode.accepted-tree-conforms-to-the-schema")
	if ctx == 8 {
		top := tree.YangDataChildrenNoSorting()
		if len(top) != 1 || len(top[0].YangDataChildrenNoSorting()) != 1 {
			vrt.Assert(false, "c19.decode.leaf-present")
			return
		}
		vals := top[0].YangDataChildrenNoSorting()[0].YangDataValuesNoSorting()
		if len(vals) != 1 {
			vrt.Assert(false, "c19.decode.one-value")
			return
		}
		got := vals[0]
		vrt.Observe("qualified", qleaf, qval, got)
		simple := (got == "local-id" || got == "m2:remote-id") && qval == "m:"+got
		vrt.Assert(got == qval || simple, "c19.decode.only-own-module-identities-are-rewritten")
		return
	}
	// a scalar handed to a leaf arrives unaltered (independent rendering of the JSON scalar)
	if ctx == 7 {
		var want string
		switch x := v.(type) {
		case nil:
			want = ""
		case bool:
			want = "false"
			if x {
				want = "true"
			}
		case float64:
			want = strconv.FormatFloat(x, 'f', -1, 64)
		case string:
			want = x
		default:
			return
		}
		top := tree.YangDataChildrenNoSorting()
		if len(top) != 1 || len(top[0].YangDataChildrenNoSorting()) != 1 {
			vrt.Assert(false, "c19.decode.leaf-present")
			return
		}
		vals := top[0].YangDataChildrenNoSorting()[0].YangDataValuesNoSorting()
		vrt.Assert(len(vals) == 1 && vals[0] == want, "c19.decode.scalar-not-altered")
	}
}

// ---- XML: an arbitrary decoded element tree (what xml.Unmarshal hands over)

func c19Elem(tag string, kids int) *unmarshaledXML {
	e := &unmarshaledXML{}
	e.XMLName.Local = c19Names[vrt.Choice(tag+".name", len(c19Names))]
	e.Chardata = vrt.String(tag+".text", vrt.Choice(tag+".len", c19StrLen+1))
	if kids > 0 {
		n := vrt.Choice(tag+".kids", kids+1)
		for i := 0; i < n; i++ {
			e.Children = append(e.Children, c19Elem(tag+"."+strconv.Itoa(i), 0))
		}
	}
	return e
}

func c19Wrap(name string, kids ...*unmarshaledXML) *unmarshaledXML {
	e := &unmarshaledXML{Children: kids}
	e.XMLName.Local = name
	return e
}

func c19Text(name, text string) *unmarshaledXML {
	e := &unmarshaledXML{Chardata: text}
	e.XMLName.Local = name
	return e
}

// VerifH_C19_DecodeTotalXML
func VerifH_C19_DecodeTotalXML() {
	ms, err := c19Schema()
	if err != nil {
		vrt.Assert(false, "c19.schema-compiles")
		return
	}
	c19StrLen = vrt.Param("strlen", 1)
	var doc *unmarshaledXML
	ctx := vrt.Choice("context", 6)
	var v *unmarshaledXML
	if ctx != 2 {
		v = c19Elem("V", vrt.Param("kids", 2))
	}
	switch ctx {
	case 0:
		doc = c19Wrap("root", v)
	case 1:
		doc = c19Wrap("root", c19Wrap("top", v))
	case 2: // two sibling elements without children (duplicates, leaf-list grouping)
		doc = c19Wrap("root", c19Wrap("top", c19Elem("A", 0), c19Elem("B", 0)))
	case 3:
		doc = c19Wrap("root", c19Wrap("top", c19Wrap("l", v)))
	case 4:
		doc = c19Wrap("root", c19Wrap("top", c19Wrap("l", c19Wrap("k", v))))
	default:
		doc = c19Wrap("root", c19Wrap("top", c19Wrap("l", c19Text("k", "a"), v)))
	}
	var tree datanode.DataNode
	var derr error
	ok, ptxt := vrt.NoPanic(func() {
		tree, derr = convertToDataNode([]string{}, ms.Name(), doc, ms)
	})
	vrt.Reach("c19.xml.context" + strconv.Itoa(ctx))
	if !ok {
		vrt.Observe("panic", ptxt)
	}
	vrt.Assert(ok, "c19.xml.no-panic")
	if !ok {
		return
	}
	vrt.Assert((derr == nil) != (tree == nil), "c19.xml.tree-xor-error")
	if derr != nil || tree == nil {
		return
	}
	vrt.Reach("c19.xml.accepted")
	vrt.Assert(c19Conforms(ms, tree, nil), "c19.xml.accepted-tree-conforms-to-the-schema")
}
