package encoding

// C19 (JSON and RFC 7951 encodings only) — encoders and decoders round-trip.
//
// encoding/json and danos/encoding/rfc7951 are reflection driven; the executor replaces
// their generic decode step by a native stub on concrete bytes (see evidence
// "stubs_hit").  What is executed symbolically is the repository's own code around
// them: the JSON writer, decodeValue, convertToDataNode, the schema-directed conversion
// and validation.  Data values are therefore concrete choices, not solver variables.

import (
	"sort"
	"strconv"

	"github.com/sdcio/yang-parser/compile"
	"github.com/sdcio/yang-parser/data/datanode"
	"github.com/sdcio/yang-parser/parse"
	"github.com/sdcio/yang-parser/schema"
	"github.com/sdcio/yang-parser/vrt"
)

const c19Module = `module m { namespace 'urn:m'; prefix m;
  container top {
    leaf s { type string; }
    leaf u8 { type uint8; }
    leaf i64 { type int64; }
    leaf u64 { type uint64; }
    leaf d { type decimal64 { fraction-digits 3; } }
    leaf b { type boolean; }
    leaf e { type empty; }
    leaf-list ll { type decimal64 { fraction-digits 3; } ordered-by user; }
    list l { key k; leaf k { type string; } leaf v { type uint32; } }
    leaf idr { type identityref { base base-id; } }
    leaf un { type union { type uint8; type identityref { base base-id; } type string; } }
    leaf un2 { type union { type uint8; type identityref { base base-id; } } }
    leaf-list sl { type string; }
    container inner { leaf x { type int8; } }
  }
  identity base-id;
  identity local-id { base base-id; }
}`

const c19Module2 = `module m2 { namespace 'urn:m2'; prefix m2;
  import m { prefix m; }
  identity remote-id { base m:base-id; }
  augment /m:top {
    container ext {
      leaf x { type string; }
      leaf idr2 { type identityref { base m:base-id; } }
      container deep { leaf y { type uint16; } }
    }
  }
}`

// compiled once, while the package is initialised (shared by all paths)
var c19MS, c19MSErr = c19Compile()

func c19Schema() (schema.ModelSet, error) { return c19MS, c19MSErr }

func c19Compile() (schema.ModelSet, error) {
	t, err := parse.Parse("m", c19Module, nil)
	if err != nil {
		return nil, err
	}
	t2, err := parse.Parse("m2", c19Module2, nil)
	if err != nil {
		return nil, err
	}
	return compile.CompileParseTrees(nil, map[string]*parse.Tree{"m": t, "m2": t2}, compile.FeaturesFromNames(true), false, nil)
}

func c19Walk(n datanode.DataNode, prefix string, out *[]string) {
	p := prefix + "/" + n.YangDataName()
	vals := n.YangDataValuesNoSorting()
	kids := n.YangDataChildrenNoSorting()
	if len(vals) == 0 && len(kids) == 0 {
		*out = append(*out, p)
	}
	for i, v := range vals {
		*out = append(*out, p+"["+strconv.Itoa(i)+"]="+v)
	}
	for _, k := range kids {
		c19Walk(k, p, out)
	}
}

func c19Canon(n datanode.DataNode) string {
	var lines []string
	c19Walk(n, "", &lines)
	sort.Strings(lines)
	s := ""
	for _, l := range lines {
		s += l + "\n"
	}
	return s
}

func leafNode(name, v string) datanode.DataNode {
	return datanode.CreateDataNode(name, nil, []string{v})
}

// VerifH_C19_RoundTrip
func VerifH_C19_RoundTrip() {
	ms, err := c19Schema()
	if err != nil {
		vrt.Observe("schema-error", err.Error())
		vrt.Assert(false, "c19.schema-compiles")
		return
	}
	var kids []datanode.DataNode
	c0Controls := false
	group := vrt.Choice("group", 6)
	switch group {
	case 0: // strings needing escaping, booleans, empty leaves
		// (DEL, a private-use character beyond the BMP and C0 controls: legal in a YANG
		// string; the controls have no XML 1.0 representation and are left to JSON)
		sv := vrt.Choice("s", 6)
		kids = append(kids, leafNode("s", []string{"plain", "q\"uo\\te\n", "é世", "a\x7fb", "\U000f0000z", "\x01\x1f\b\f\v"}[sv]))
		c0Controls = sv == 5
		kids = append(kids, leafNode("b", []string{"true", "false"}[vrt.Choice("b", 2)]))
		if vrt.Bool("e") {
			kids = append(kids, leafNode("e", "")) // the form every decoder produces for an empty leaf
		}
	case 1: // integers incl. the 64-bit extremes
		kids = append(kids, leafNode("u8", []string{"0", "255"}[vrt.Choice("u8", 2)]))
		kids = append(kids, leafNode("i64", []string{"9223372036854775807", "-9223372036854775808", "-1"}[vrt.Choice("i64", 3)]))
		kids = append(kids, leafNode("u64", []string{"18446744073709551615", "4294967296"}[vrt.Choice("u64", 2)]))
	case 2: // decimal64 leaf and user-ordered leaf-list
		kids = append(kids, leafNode("d", []string{"1.25", "-0.125", "3.000", "9223372036854775.807"}[vrt.Choice("d", 4)]))
		if vrt.Bool("ll") {
			kids = append(kids, datanode.CreateDataNode("ll", nil, []string{"10.500", "-0.125", "3.000"}))
		}
	case 3: // list entries
		n := vrt.Choice("entries", 3)
		var es []datanode.DataNode
		for i := 0; i < n; i++ {
			k := []string{"zeta", "alpha"}[i]
			es = append(es, datanode.CreateDataNode(k, []datanode.DataNode{leafNode("k", k), leafNode("v", []string{"7", "4294967295"}[i])}, nil))
		}
		if n > 0 {
			kids = append(kids, datanode.CreateDataNode("l", es, nil))
		}
		kids = append(kids, leafNode("s", "x"))
	case 4: // identityrefs (own and foreign module), union members
		kids = append(kids, leafNode("idr", []string{"local-id", "m2:remote-id"}[vrt.Choice("idr", 2)]))
		kids = append(kids, leafNode("un", []string{"7", "local-id", "m2:remote-id", "free text"}[vrt.Choice("un", 4)]))
	case 5: // nodes of an augmenting module inside (module-name stack of the RFC 7951 writer), nesting
		var ext []datanode.DataNode
		if vrt.Bool("ext.x") {
			ext = append(ext, leafNode("x", "<&>"))
		}
		ext = append(ext, leafNode("idr2", []string{"m:local-id", "remote-id"}[vrt.Choice("idr2", 2)]))
		if vrt.Bool("ext.deep") {
			ext = append(ext, datanode.CreateDataNode("deep", []datanode.DataNode{leafNode("y", "65535")}, nil))
		}
		kids = append(kids, datanode.CreateDataNode("ext", ext, nil))
		kids = append(kids, datanode.CreateDataNode("inner", []datanode.DataNode{leafNode("x", "-128")}, nil))
		if vrt.Bool("sl") {
			kids = append(kids, datanode.CreateDataNode("sl", nil, []string{"b", "a", "b c"}))
		}
	}
	tree := datanode.CreateDataNode("root", []datanode.DataNode{datanode.CreateDataNode("top", kids, nil)}, nil)
	want := c19Canon(tree)
	enc := vrt.Choice("encoding", vrt.Param("encodings", 3))
	if c0Controls && enc == 2 {
		vrt.Reach("c19.roundtrip.c0-controls-not-representable-in-xml")
		return
	}
	var bytes []byte
	var back datanode.DataNode
	var derr error
	ok, ptxt := vrt.NoPanic(func() {
		if enc == 0 {
			bytes = ToRFC7951(ms, tree)
			back, derr = NewUnmarshaller(RFC7951).SetValidation(schema.DontValidate).Unmarshal(ms, bytes)
		} else if enc == 1 {
			bytes = ToJSON(ms, tree)
			back, derr = NewUnmarshaller(JSON).SetValidation(schema.DontValidate).Unmarshal(ms, bytes)
		} else {
			bytes = ToXML(ms, tree)
			back, derr = NewUnmarshaller(XML).SetValidation(schema.DontValidate).Unmarshal(ms, bytes)
		}
	})
	vrt.Reach("c19.roundtrip.group" + strconv.Itoa(group))
	if !ok {
		vrt.Observe("panic", ptxt)
	}
	vrt.Assert(ok, "c19.no-panic")
	if !ok {
		return
	}
	vrt.Observe("encoded", enc, string(bytes))
	if derr != nil {
		vrt.Observe("decode-error", derr.Error())
	}
	vrt.Assert(derr == nil, "c19.decoding-own-output-succeeds")
	if derr != nil {
		return
	}
	// the decoded tree is rooted at the schema root's name; compare below the root
	var lines []string
	for _, k := range back.YangDataChildrenNoSorting() {
		c19Walk(k, "/root", &lines)
	}
	sort.Strings(lines)
	got := ""
	for _, l := range lines {
		got += l + "\n"
	}
	vrt.Observe("decoded", got)
	vrt.Assert(got == want, "c19.roundtrip-yields-the-same-tree")
}
