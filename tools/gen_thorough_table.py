#!/usr/bin/env python3
"""Fills the TABLE:thorough block of DESIGN.md from /verif/thorough-results.txt
(lines: '<id> rc=<n> t=<s>s property=... exit=... paths=... obligations=... ...')."""
import re
rows=["| id | exit | paths | obligations (all discharged) | known findings printed | natively validated paths | wall (s) |","|---|---|---|---|---|---|---|"]
res={}
for l in open('/verif/thorough-results.txt'):
    m=re.match(r'(C\d\d) rc=(\d+) t=(\d+)s .*exit=(\d+) paths=(\d+) obligations=(\d+) discharged=(\d+) violations=(\d+) known=(\d+) validated=(\d+)',l)
    if m: res[m.group(1)]=m.groups()
for pid in sorted(res):
    _,rc,t,ex,paths,ob,dis,vio,kn,val=res[pid]
    rows.append(f"| {pid} | {ex} | {paths} | {ob}{'' if ob==dis else ' ('+dis+' discharged)'} | {kn} | {val} | {t} |")
s=open('/verif/DESIGN.md').read()
a=s.index('<!-- TABLE:thorough -->'); b=s.index('<!-- /TABLE:thorough -->')
s=s[:a]+'<!-- TABLE:thorough -->\n'+"\n".join(rows)+'\n'+s[b:]
open('/verif/DESIGN.md','w').write(s)
print(len(rows)-2,'rows')
