#!/bin/sh
# usage: tools/try_seed.sh <property> <patch.diff> [tier]   -- applies the patch to /repo, runs the check, reverts
P="$1"; PATCH="$2"; TIER="${3:-quick}"
cd /repo && git apply "$PATCH" || { echo "patch does not apply"; exit 3; }
cd /verif && ./check "$P" "$TIER" > /tmp/try_seed_$P.log 2>&1; RC=$?
cd /repo && git checkout -- . && git status --short | head -3
grep -c "^VIOLATION" /tmp/try_seed_$P.log | sed "s/^/VIOLATION lines: /"
grep "^VIOLATION\|assertion=\|CHECK-PROBLEM" /tmp/try_seed_$P.log | cut -c1-260 | head -8
tail -1 /tmp/try_seed_$P.log
echo "exit=$RC"
