#!/usr/bin/env python3
"""Regenerates /verif/MANIFEST.json from props.json + the tables below."""
import json
props=[json.loads(l) for l in open('/verif/properties.jsonl')]
cfg=json.load(open('/verif/props.json'))
meta=json.load(open('/verif/tools/manifest_meta.json'))
checks=[]; na=[]
for p in props:
    pid=p['id']
    if pid in cfg and pid in meta.get('claimed',{}):
        m=meta['claimed'][pid]
        checks.append({
          "property_id":pid,
          "quick_cmd":f"./check {pid} quick",
          "thorough_cmd":f"./check {pid} thorough",
          "evidence_file":f"/verif/evidence/{pid}.json",
          "replay_cmd_template":f"./check {pid} --replay {{path}}",
          "engine":"gosx",
          "level_claimed":{"category":cfg[pid].get("level","model_checking"),"text":m["text"],"design_ref":m.get("design_ref","DESIGN.md §6 "+pid)},
          "level_note":m["note"],
          "technique":m.get("technique","bounded symbolic execution of the real Go code from go/ssa; SMT (z3) decides every branch and every assertion; counter-examples replayed natively"),
        })
    else:
        na.append({"property_id":pid,"reason":meta.get('not_applicable',{}).get(pid,"check under construction (engine built; harness not yet registered)")})
m={"version":1,
 "setup_cmd":"cd /verif/engine && GOFLAGS=-mod=mod GOPROXY=off go build -o bin/goyacc golang.org/x/tools/cmd/goyacc && GOFLAGS=-mod=mod GOPROXY=off go build -o bin/gosx ./cmd/gosx",
 "hooks":{"guard":"verif","enable":"no source hooks: harnesses, the vrt runtime and the regenerated goyacc parser are injected by build overlay (go/packages Overlay for the symbolic run, go test -overlay for native replay)","baseline_off_cmd":"cd /repo && GOFLAGS=-mod=mod go test -vet=off -count=1 ./xpath/...","source_commits":[],"add_only":True},
 "engines":[{"name":"gosx","path":"/verif/engine","serves_properties":[c["property_id"] for c in checks],"kind_free_text":"bounded symbolic executor for Go SSA (go/ssa) with an SMT back end (z3 5.1 primary; z3 4.8.12 and cvc5 for cross-checks), native replay of every counter-example"}],
 "checks":checks,
 "not_applicable":na,
 "notes":meta.get("notes","")}
json.dump(m,open('/verif/MANIFEST.json','w'),indent=1)
print("claimed:",[c["property_id"] for c in checks])
