#!/usr/bin/env python3
"""Rewrites the harness table of DESIGN.md §9.3 (between the TABLE markers) from props.json
and the quick-tier wall times found in evidence/*.json."""
import json,re,glob
props=json.load(open('/verif/props.json'))
wall={}
for f in glob.glob('/verif/evidence/C*.json'):
    e=json.load(open(f))
    if e.get('tier')=='quick': wall[e['property_id']]=e.get('wall_s')
def fmt(d): return ','.join(f"{k}={v}" for k,v in d.items()) or '-'
rows=["| id | harness: quick → thorough parameters | quick wall (s) |","|---|---|---|"]
for pid in sorted(props):
    hs=[]
    for h in props[pid]['harnesses']:
        name=h['fn'].replace('VerifH_'+pid+'_','').replace('VerifH_','')
        q='(thorough only)' if h.get('skip_quick') else fmt(h.get('quick',{}))
        hs.append(f"{name}: {q} → {fmt(h.get('thorough',{}))}")
    rows.append(f"| {pid} | "+"; ".join(hs)+f" | {wall.get(pid,'?')} |")
s=open('/verif/DESIGN.md').read()
a=s.index('<!-- TABLE:checks -->'); b=s.index('<!-- /TABLE:checks -->')
s=s[:a]+'<!-- TABLE:checks -->\n'+"\n".join(rows)+'\n'+s[b:]
open('/verif/DESIGN.md','w').write(s)
print("table rewritten:",len(rows)-2,"rows")
