#!/bin/sh
# usage: tools/try_seed_clone.sh <property> <patch.diff> [tier]
# Applies the patch to a scratch clone of /repo (never to /repo itself), runs the check
# against the clone with evidence/replays written to scratch, removes the clone.
P="$1"; PATCH="$2"; TIER="${3:-quick}"
S=$(mktemp -d /tmp/seedtrial.XXXXXX)
git clone -q /repo "$S/repo" || exit 3
( cd "$S/repo" && git apply "$PATCH" ) || { echo "patch does not apply"; rm -rf "$S"; exit 3; }
/verif/engine/bin/gosx check -prop "$P" -tier "$TIER" -repo "$S/repo" -out "$S/out" > "$S/log" 2>&1; RC=$?
grep -c "^VIOLATION" "$S/log" | sed "s/^/VIOLATION lines: /"
grep -o 'assertion="[^"]*"' "$S/log" | sort | uniq -c | tr '\n' ' '; echo
grep "^CHECK-PROBLEM" "$S/log" | cut -c1-300 | head -3
tail -1 "$S/log"
cp "$S/log" /tmp/try_seed_clone_$P.log
rm -rf "$S"
echo "exit=$RC"
