#!/usr/bin/env python3
# usage: tools/time_harnesses.py <tier> <cap-seconds> <prop> [<prop>...]
# Times every harness configuration of the given properties one by one with `gosx run`
# (development aid: tells which configuration of a tier is the expensive one).
import json, subprocess, sys, time
tier, cap = sys.argv[1], int(sys.argv[2])
d = json.load(open('/verif/props.json'))
for p in sys.argv[3:]:
    P = d[p]
    for h in P['harnesses']:
        if tier == 'quick' and h.get('skip_quick'):
            continue
        pkg = h.get('pkg', P['pkg'])
        cmd = ['timeout', str(cap), '/verif/engine/bin/gosx', 'run', '-pkg', pkg, '-fn', h['fn']]
        for k, v in h.get(tier, {}).items():
            cmd += ['-param', f'{k}={v}']
        if 'timeout_ms' in h: cmd += ['-timeout-ms', str(h['timeout_ms'])]
        if 'max_steps' in h: cmd += ['-max-steps', str(h['max_steps'])]
        t0 = time.time()
        r = subprocess.run(cmd, capture_output=True, text=True)
        dt = time.time() - t0
        line = [l for l in r.stdout.split('\n') if l.startswith('harness ')]
        ends = [l.strip() for l in r.stdout.split('\n') if l.strip().startswith('ends:')]
        print(f"{p} {h['fn']} {h.get(tier,{})} rc={r.returncode} t={dt:.0f}s {line[0][:110] if line else ''} {ends[0] if ends else ''}", flush=True)
