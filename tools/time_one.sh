#!/bin/sh
# usage: tools/time_one.sh <cap-seconds> <pkg> <fn> [k=v ...]   (development aid)
CAP="$1"; PKG="$2"; FN="$3"; shift 3
ARGS=""; for kv in "$@"; do ARGS="$ARGS -param $kv"; done
S=$(date +%s)
OUT=$(timeout "$CAP" /verif/engine/bin/gosx run -pkg "$PKG" -fn "$FN" $ARGS 2>&1); RC=$?
echo "$FN $* rc=$RC t=$(( $(date +%s)-S ))s $(echo "$OUT" | grep '^harness' | cut -c1-90) $(echo "$OUT" | grep 'ends:')"
