#!/bin/sh
# Runs every stored seed (on a scratch clone of /repo) against the quick tier of its
# property's check and prints one line per seed.  Usage: [SEEDS="name ..."] tools/seed_regression.sh [tier]
TIER="${1:-quick}"
for d in /verif/seeded/*/; do
  name=$(basename "$d")
  if [ -n "$SEEDS" ]; then case " $SEEDS " in *" $name "*) ;; *) continue;; esac; fi
  prop=$(python3 -c "import json;print(json.load(open('$d/meta.json'))['property'])")
  patch="$d/patch.diff"
  [ -f "$d/patch_current.diff" ] && patch="$d/patch_current.diff"
  out=$(/verif/tools/try_seed_clone.sh "$prop" "$patch" "$TIER" 2>&1)
  rc=$(echo "$out" | sed -n 's/^exit=//p')
  viol=$(echo "$out" | sed -n 's/^VIOLATION lines: //p')
  asserts=$(echo "$out" | grep -o 'assertion="[^"]*"' | sort -u | tr '\n' ' ' | cut -c1-160)
  echo "$name prop=$prop exit=$rc violations=$viol $asserts"
done
