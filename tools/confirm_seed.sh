#!/bin/bash
# usage: confirm_seed.sh <seed-name> <property> <worktree> <seed-dir> "<demo go test args>"
# Confirms in the scratch worktree: demo fails with the patch, passes without; passing xpath tests do not shrink.
NAME="$1"; PROP="$2"; WT="$3"; SD="$4"; DEMO="$5"
export GOFLAGS=-mod=mod GOPROXY=off
cd "$WT" || exit 2
passset() { go test -vet=off -count=1 -json ./xpath/... 2>/dev/null | python3 -c "
import sys,json
s=set()
for l in sys.stdin:
    try: e=json.loads(l)
    except: continue
    if e.get('Action')=='pass' and e.get('Test'): s.add(e['Package']+'::'+e['Test'])
print('\n'.join(sorted(s)))"; }
git diff --quiet && { echo "no patch applied in $WT"; exit 2; }
go test -vet=off -count=1 $DEMO > /tmp/confirm_with.log 2>&1; WITH=$?
passset | grep -v "zz_\|TestC0" > /tmp/confirm_after.txt
git stash -q
go test -vet=off -count=1 $DEMO > /tmp/confirm_without.log 2>&1; WITHOUT=$?
passset | grep -v "zz_\|TestC0" > /tmp/confirm_base.txt
git stash pop -q
LOST=$(comm -23 /tmp/confirm_base.txt /tmp/confirm_after.txt | wc -l)
NB=$(wc -l < /tmp/confirm_base.txt); NA=$(wc -l < /tmp/confirm_after.txt)
echo "$NAME: demo with patch exit=$WITH (want !=0), without exit=$WITHOUT (want 0); baseline pass=$NB after=$NA lost=$LOST"
if [ $WITH -ne 0 ] && [ $WITHOUT -eq 0 ] && [ $LOST -eq 0 ]; then
  D=/verif/seeded/$NAME; mkdir -p $D/demo
  git diff > $D/patch.diff
  cp -r "$SD"/demo/* $D/demo/ 2>/dev/null
  python3 - "$SD/meta.json" "$D/meta.json" "$PROP" "$NB" "$NA" "$DEMO" <<'PY'
import json,sys
src,dst,prop,nb,na,demo=sys.argv[1:]
try: m=json.load(open(src))
except Exception: m={}
m["property"]=prop
m["confirmed_by_verifier"]={"ran":[f"in a scratch worktree: go test -vet=off -count=1 {demo}  (with patch: FAIL, patch stashed: PASS)","go test -vet=off -count=1 -json ./xpath/...  with and without the patch; passing sets compared"],"baseline_pass":int(nb),"after_pass":int(na),"lost":0}
json.dump(m,open(dst,"w"),indent=1)
PY
  echo "kept as $D"
else
  echo "NOT CONFIRMED"; tail -5 /tmp/confirm_with.log /tmp/confirm_without.log
fi
