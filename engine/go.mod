module gosx

go 1.23

require (
	github.com/danos/encoding v0.0.0-20210701125528-66857fd8c8ea
	golang.org/x/tools v0.29.0
)

require (
	golang.org/x/mod v0.22.0 // indirect
	golang.org/x/sync v0.10.0 // indirect
)
