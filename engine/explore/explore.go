// Package explore enumerates every feasible path of a harness with a pool of workers.
package explore

import (
	"fmt"
	"os"
	"sort"
	"sync"
	"time"

	"golang.org/x/tools/go/ssa"

	"gosx/interp"
	"gosx/smt"
)

type Options struct {
	Workers   int
	MaxPaths  int
	Validate  int // number of completed paths kept for native differential validation
	Deadline  time.Time
	Verbose   bool
	MaxViolPerID int
}

type Violation struct {
	ID        string
	Model     smt.Model
	Site      string
	Decisions int
	PathEnd   string
	Observed  []string // engine-side observations of the path (under the path's model), for diagnosis
}

type ValCase struct {
	Model    smt.Model
	Observed []string
	Reached  []string
}

type OblStat struct {
	Total, Discharged, Violated, Undecided int
}

type Summary struct {
	Harness     string
	Paths       int
	Ends        map[string]int
	EndSamples  map[string][]string // a few messages per non-"done" end kind
	EndModels   map[string][]smt.Model
	EndClasses  map[string][][]string
	Decisions   int
	Forks       int
	Obligations map[string]*OblStat
	Violations  []Violation
	KFSeen      map[string]smt.Model
	Reached     map[string]int
	Unknowns    int
	ValCases    []ValCase
	Samples     []map[string]interface{}
	Steps       int64
	Queries     int
	SolverNs    int64
	SolverErrs  int
	Funcs       map[string]int64
	Stubs       map[string]int64
	Truncated   bool
	WallS       float64
}

// Pool keeps initialised workers alive across several explorations of one program.
type Pool struct {
	Cfg     *interp.Config
	workers []*interp.Worker
}

func NewPool(cfg *interp.Config, n int) (*Pool, error) {
	p := &Pool{Cfg: cfg}
	var mu sync.Mutex
	var wg sync.WaitGroup
	var firstErr error
	for k := 0; k < n; k++ {
		wg.Add(1)
		go func() {
			defer wg.Done()
			w, err := interp.NewWorker(cfg)
			mu.Lock()
			defer mu.Unlock()
			if err != nil {
				if firstErr == nil {
					firstErr = err
				}
				return
			}
			p.workers = append(p.workers, w)
		}()
	}
	wg.Wait()
	if firstErr != nil {
		p.Close()
		return nil, firstErr
	}
	return p, nil
}

func (p *Pool) Close() {
	for _, w := range p.workers {
		w.Close()
	}
}

func (p *Pool) Explore(entry *ssa.Function, opt Options) *Summary {
	t0 := time.Now()
	s := &Summary{Harness: entry.Name(), Ends: map[string]int{}, EndSamples: map[string][]string{}, EndModels: map[string][]smt.Model{}, EndClasses: map[string][][]string{},
		Obligations: map[string]*OblStat{}, KFSeen: map[string]smt.Model{}, Reached: map[string]int{},
		Funcs: map[string]int64{}, Stubs: map[string]int64{}}
	if opt.MaxViolPerID == 0 {
		opt.MaxViolPerID = 3
	}
	var mu sync.Mutex
	cond := sync.NewCond(&mu)
	queue := []interp.WorkItem{{}}
	active := 0
	violPerID := map[string]int{}
	q0, ns0, e0 := 0, int64(0), 0
	for _, w := range p.workers {
		q, ns, e := w.SolverStats()
		q0 += q
		ns0 += ns
		e0 += e
	}
	var wg sync.WaitGroup
	for _, w := range p.workers {
		wg.Add(1)
		go func(w *interp.Worker) {
			defer wg.Done()
			for {
				mu.Lock()
				for len(queue) == 0 && active > 0 {
					cond.Wait()
				}
				if len(queue) == 0 {
					mu.Unlock()
					cond.Broadcast()
					return
				}
				if (opt.MaxPaths > 0 && s.Paths >= opt.MaxPaths) || (!opt.Deadline.IsZero() && time.Now().After(opt.Deadline)) {
					s.Truncated = true
					queue = nil
					mu.Unlock()
					cond.Broadcast()
					return
				}
				item := queue[len(queue)-1]
				queue = queue[:len(queue)-1]
				active++
				mu.Unlock()

				res := w.Run(entry, item)

				mu.Lock()
				active--
				s.Paths++
				s.Ends[res.End]++
				if res.End != "done" && res.End != "assume-false" {
					if len(s.EndSamples[res.End]) < 8 && !contains(s.EndSamples[res.End], res.Msg) {
						s.EndSamples[res.End] = append(s.EndSamples[res.End], res.Msg)
						s.EndModels[res.End] = append(s.EndModels[res.End], res.Model)
						s.EndClasses[res.End] = append(s.EndClasses[res.End], res.ClassTrue)
					}
				}
				s.Decisions += len(res.Decisions)
				s.Forks += len(res.NewWork)
				s.Steps += res.Steps
				s.Unknowns += res.Unknowns
				for _, r := range res.Reached {
					s.Reached[r]++
				}
				for _, ob := range res.Obligations {
					if ob.Verdict == "replayed" {
						continue
					}
					st := s.Obligations[ob.ID]
					if st == nil {
						st = &OblStat{}
						s.Obligations[ob.ID] = st
					}
					st.Total++
					switch ob.Verdict {
					case "discharged":
						st.Discharged++
					case "violated":
						st.Violated++
						if violPerID[ob.ID] < opt.MaxViolPerID {
							violPerID[ob.ID]++
							s.Violations = append(s.Violations, Violation{ID: ob.ID, Model: ob.Model, Site: ob.Site, Decisions: len(res.Decisions), Observed: res.ObservedCanon})
						}
					case "undecided":
						st.Undecided++
					}
				}
				for k, m := range res.KFSeen {
					if _, ok := s.KFSeen[k]; !ok {
						s.KFSeen[k] = m
					}
				}
				if res.End == "done" && res.Model != nil && res.ObservedCanon != nil && len(s.ValCases) < opt.Validate {
					s.ValCases = append(s.ValCases, ValCase{Model: res.Model, Observed: res.ObservedCanon, Reached: res.Reached})
				}
				if len(s.Samples) < 10 && (res.End == "done" || res.End == "panic") {
					s.Samples = append(s.Samples, map[string]interface{}{
						"end": res.End, "decisions": len(res.Decisions), "pc_conjuncts": res.PCSize, "model": modelJSON(res.Model),
						"observed": res.ObservedCanon, "obligations": oblJSON(res.Obligations), "instructions": res.Steps,
					})
				}
				queue = append(queue, res.NewWork...)
				if opt.Verbose && s.Paths%500 == 0 {
					fmt.Fprintf(os.Stderr, "  [%s] paths=%d queue=%d ends=%v\n", entry.Name(), s.Paths, len(queue), s.Ends)
				}
				mu.Unlock()
				cond.Broadcast()
			}
		}(w)
	}
	wg.Wait()
	for _, w := range p.workers {
		q, ns, e := w.SolverStats()
		s.Queries += q
		s.SolverNs += ns
		s.SolverErrs += e
		for f, n := range w.FuncInstrs() {
			s.Funcs[f.String()] += n
		}
		for f, n := range w.StubsHit() {
			s.Stubs[f] += n
		}
	}
	s.Queries -= q0
	s.SolverNs -= ns0
	s.SolverErrs -= e0
	s.WallS = time.Since(t0).Seconds()
	sort.Slice(s.Violations, func(a, b int) bool { return s.Violations[a].ID < s.Violations[b].ID })
	return s
}

func modelJSON(m smt.Model) map[string]uint64 {
	if m == nil {
		return nil
	}
	r := map[string]uint64{}
	for k, v := range m {
		r[k] = v
	}
	return r
}

func oblJSON(obs []interp.Obligation) []string {
	var r []string
	for _, o := range obs {
		r = append(r, o.ID+":"+o.Verdict)
	}
	return r
}

func contains(xs []string, x string) bool {
	for _, y := range xs {
		if y == x {
			return true
		}
	}
	return false
}
