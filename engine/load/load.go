// Package load regenerates the goyacc parsers, assembles the build overlay (harnesses,
// vrt runtime, generated parser) and loads /repo into go/ssa.
package load

import (
	"encoding/json"
	"fmt"
	"go/types"
	"os"
	"os/exec"
	"path/filepath"
	"regexp"
	"runtime"
	"sort"
	"strings"
	"sync"

	"golang.org/x/tools/go/packages"
	"golang.org/x/tools/go/ssa"
	"golang.org/x/tools/go/ssa/ssautil"
)

const Module = "github.com/sdcio/yang-parser"

type Env struct {
	Repo       string // /repo
	HarnessDir string // /verif/harness
	EngineDir  string // /verif/engine
	Scratch    string // temporary directory (removed by Close)
	Overlay    map[string][]byte
	Replace    map[string]string // virtual path -> real file (for go test -overlay)
	Harnesses  map[string][]string // pkg dir -> harness function names
}

func (e *Env) Close() {
	if e.Scratch != "" {
		os.RemoveAll(e.Scratch)
	}
}

func goEnv() []string {
	env := os.Environ()
	var out []string
	for _, kv := range env {
		if strings.HasPrefix(kv, "GOFLAGS=") || strings.HasPrefix(kv, "GOPROXY=") || strings.HasPrefix(kv, "GOTOOLCHAIN=") || strings.HasPrefix(kv, "GOSUMDB=") {
			continue
		}
		out = append(out, kv)
	}
	// the repo needs the go1.23.11 toolchain, selected offline by GOTOOLCHAIN=auto
	return append(out, "GOFLAGS=-mod=mod", "GOPROXY=off", "GOTOOLCHAIN=auto")
}

var harnessRe = regexp.MustCompile(`(?m)^func (VerifH_\w+)\(\)`)

// NewEnv prepares generated sources and the overlay.
func NewEnv(repo, harnessDir, engineDir string) (*Env, error) {
	scratch, err := os.MkdirTemp("", "gosx-")
	if err != nil {
		return nil, err
	}
	e := &Env{Repo: repo, HarnessDir: harnessDir, EngineDir: engineDir, Scratch: scratch,
		Overlay: map[string][]byte{}, Replace: map[string]string{}, Harnesses: map[string][]string{}}
	add := func(virtual, real string) error {
		b, err := os.ReadFile(real)
		if err != nil {
			return err
		}
		e.Overlay[virtual] = b
		e.Replace[virtual] = real
		return nil
	}
	// 1. goyacc: regenerate leafref.go (absent at the pin) from the current grammar
	goyacc := filepath.Join(engineDir, "bin", "goyacc")
	gen := func(dir, prefix, yfile, outname string) (string, error) {
		out := filepath.Join(scratch, prefix+"_"+outname)
		cmd := exec.Command(goyacc, "-o", out, "-v", filepath.Join(scratch, prefix+".output"), "-p", prefix, filepath.Join(repo, dir, yfile))
		cmd.Dir = scratch
		if b, err := cmd.CombinedOutput(); err != nil {
			return "", fmt.Errorf("goyacc %s: %v: %s", yfile, err, b)
		}
		return out, nil
	}
	lr := filepath.Join(repo, "xpath/grammars/leafref/leafref.go")
	if _, err := os.Stat(lr); err != nil {
		out, err := gen("xpath/grammars/leafref", "leafref", "leafref.y", "leafref.go")
		if err != nil {
			e.Close()
			return nil, err
		}
		if err := add(lr, out); err != nil {
			e.Close()
			return nil, err
		}
	}
	// 2. vrt runtime
	if err := add(filepath.Join(repo, "vrt", "vrt.go"), filepath.Join(harnessDir, "vrt", "vrt.go")); err != nil {
		e.Close()
		return nil, err
	}
	// 3. harness files, mirrored by directory
	err = filepath.Walk(harnessDir, func(p string, info os.FileInfo, err error) error {
		if err != nil || info.IsDir() || !strings.HasSuffix(p, ".go") {
			return err
		}
		rel, _ := filepath.Rel(harnessDir, p)
		dir := filepath.Dir(rel)
		if dir == "vrt" {
			return nil
		}
		virtual := filepath.Join(repo, dir, "zz_verif_"+filepath.Base(rel))
		if err := add(virtual, p); err != nil {
			return err
		}
		for _, m := range harnessRe.FindAllSubmatch(e.Overlay[virtual], -1) {
			e.Harnesses[dir] = append(e.Harnesses[dir], string(m[1]))
		}
		return nil
	})
	if err != nil {
		e.Close()
		return nil, err
	}
	// 4. a replay test per harness package
	for dir, fns := range e.Harnesses {
		sort.Strings(fns)
		pkgName, err := packageName(filepath.Join(harnessDir, dir))
		if err != nil {
			e.Close()
			return nil, err
		}
		var sb strings.Builder
		fmt.Fprintf(&sb, "package %s\n\nimport (\n\t\"testing\"\n\t\"%s/vrt\"\n)\n\n", pkgName, Module)
		sb.WriteString("func TestVerifReplay(t *testing.T) {\n\tvrt.ReplayMain(t, map[string]func(){\n")
		for _, f := range fns {
			fmt.Fprintf(&sb, "\t\t%q: %s,\n", f, f)
		}
		sb.WriteString("\t})\n}\n")
		real := filepath.Join(scratch, strings.ReplaceAll(dir, "/", "_")+"_replay_test.go")
		if err := os.WriteFile(real, []byte(sb.String()), 0644); err != nil {
			e.Close()
			return nil, err
		}
		if err := add(filepath.Join(repo, dir, "zz_verif_replay_test.go"), real); err != nil {
			e.Close()
			return nil, err
		}
	}
	if err := add(filepath.Join(repo, "vrt", "replay.go"), filepath.Join(harnessDir, "vrt", "replay.go")); err != nil {
		e.Close()
		return nil, err
	}
	return e, nil
}

func packageName(dir string) (string, error) {
	ents, err := os.ReadDir(dir)
	if err != nil {
		return "", err
	}
	re := regexp.MustCompile(`(?m)^package (\w+)`)
	for _, en := range ents {
		if strings.HasSuffix(en.Name(), ".go") {
			b, _ := os.ReadFile(filepath.Join(dir, en.Name()))
			if m := re.FindSubmatch(b); m != nil {
				return string(m[1]), nil
			}
		}
	}
	return "", fmt.Errorf("no package clause in %s", dir)
}

// OverlayFile writes the go build overlay JSON and returns its path.
func (e *Env) OverlayFile() (string, error) {
	p := filepath.Join(e.Scratch, "overlay.json")
	b, _ := json.Marshal(map[string]interface{}{"Replace": e.Replace})
	return p, os.WriteFile(p, b, 0644)
}

type Program struct {
	Prog   *ssa.Program
	Pkgs   map[string]*ssa.Package // by import path
	Sizes  types.Sizes
	byName map[string]*ssa.Function
	mu     sync.Mutex
}

// Load type-checks and builds SSA for the given repo-relative package directories.
func (e *Env) Load(pkgDirs ...string) (*Program, error) {
	overlay := map[string][]byte{}
	for k, v := range e.Overlay {
		if strings.HasSuffix(k, "_test.go") || strings.HasSuffix(k, "/vrt/replay.go") {
			continue // the symbolic run does not load test files nor the native replay runner
		}
		overlay[k] = v
	}
	cfg := &packages.Config{
		Mode:    packages.LoadAllSyntax,
		Dir:     e.Repo,
		Env:     goEnv(),
		Overlay: overlay,
	}
	var patterns []string
	for _, d := range pkgDirs {
		patterns = append(patterns, Module+"/"+d)
	}
	patterns = append(patterns, "runtime", "unicode/utf8", "strconv", "errors", "strings", "bytes")
	// type-checking with many threads is dominated by kernel page-fault contention in
	// this sandbox; a few threads are several times faster
	prev := runtime.GOMAXPROCS(4)
	defer runtime.GOMAXPROCS(prev)
	initial, err := packages.Load(cfg, patterns...)
	if err != nil {
		return nil, err
	}
	var errs []string
	packages.Visit(initial, nil, func(p *packages.Package) {
		for _, e := range p.Errors {
			errs = append(errs, e.Error())
		}
	})
	if len(errs) > 0 {
		if len(errs) > 12 {
			errs = errs[:12]
		}
		return nil, fmt.Errorf("load errors:\n%s", strings.Join(errs, "\n"))
	}
	prog, _ := ssautil.AllPackages(initial, ssa.InstantiateGenerics|ssa.SanityCheckFunctions*0)
	prog.Build()
	p := &Program{Prog: prog, Pkgs: map[string]*ssa.Package{}, byName: map[string]*ssa.Function{}}
	for _, sp := range prog.AllPackages() {
		p.Pkgs[sp.Pkg.Path()] = sp
	}
	p.Sizes = types.SizesFor("gc", "amd64")
	return p, nil
}

// FuncByName resolves "import/path.Func".
func (p *Program) FuncByName(name string) *ssa.Function {
	p.mu.Lock()
	defer p.mu.Unlock()
	if f, ok := p.byName[name]; ok {
		return f
	}
	k := strings.LastIndex(name, ".")
	if k < 0 {
		return nil
	}
	pkg := p.Pkgs[name[:k]]
	if pkg == nil {
		return nil
	}
	f := pkg.Func(name[k+1:])
	p.byName[name] = f
	return f
}
