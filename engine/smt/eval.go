package smt

import (
	"fmt"
	"math"
)

// Model assigns bits to variables (Bool: 0/1).  Missing variables read as 0.
type Model map[string]uint64

// UFInterp supplies concrete meanings for uninterpreted functions during evaluation
// (used when a model is replayed; the solver itself never sees them).
var UFInterp = map[string]func(args []uint64) uint64{}

type Evaluator struct {
	C    *Ctx
	M    Model
	memo map[int]uint64
	fast *FastEval
}

func NewEvaluator(c *Ctx, m Model) *Evaluator {
	return &Evaluator{C: c, M: m, memo: map[int]uint64{}}
}

func fpOf(w int, v uint64) float64 {
	if w == 64 {
		return f64(v)
	}
	return float64(f32(v))
}

func fpBits(w int, f float64) uint64 {
	if w == 64 {
		return math.Float64bits(f)
	}
	return uint64(math.Float32bits(float32(f)))
}

func b2u(b bool) uint64 {
	if b {
		return 1
	}
	return 0
}

func (e *Evaluator) Eval(t *Term) uint64 {
	if t.Op == OConst {
		return t.Val
	}
	if e.fast != nil {
		return e.fast.Eval(t)
	}
	if v, ok := e.memo[t.ID]; ok {
		return v
	}
	v := e.eval1(t)
	e.memo[t.ID] = v
	return v
}

func (e *Evaluator) eval1(t *Term) uint64 {
	a := func(i int) uint64 { return e.Eval(t.Args[i]) }
	switch t.Op {
	case OVar:
		return e.M[t.Name] & mask(t.S.W)
	case ONot:
		return 1 - a(0)
	case OAnd:
		return a(0) & a(1)
	case OOr:
		return a(0) | a(1)
	case OIte:
		if a(0) == 1 {
			return a(1)
		}
		return a(2)
	case OEq:
		if t.Args[0].S.K == SFP {
			return b2u(fpStructEq(t.Args[0].S.W, a(0), a(1)))
		}
		return b2u(a(0) == a(1))
	case OBvAdd, OBvSub, OBvMul, OBvUdiv, OBvSdiv, OBvUrem, OBvSrem, OBvAnd, OBvOr, OBvXor, OBvShl, OBvLshr, OBvAshr:
		v, _ := evalBvBin(t.Op, t.S.W, a(0), a(1))
		return v
	case OBvUlt, OBvUle, OBvSlt, OBvSle:
		return b2u(evalBvCmp(t.Op, t.Args[0].S.W, a(0), a(1)))
	case OBvNot:
		return ^a(0) & mask(t.S.W)
	case OBvNeg:
		return -a(0) & mask(t.S.W)
	case OConcat:
		return (a(0)<<uint(t.Args[1].S.W) | a(1)) & mask(t.S.W)
	case OExtract:
		return (a(0) >> uint(t.B)) & mask(t.S.W)
	case OZext:
		return a(0)
	case OSext:
		return uint64(sext(a(0), t.Args[0].S.W)) & mask(t.S.W)
	case OFpAdd, OFpSub, OFpMul, OFpDiv:
		w := t.S.W
		if w == 32 {
			x, y := f32(a(0)), f32(a(1))
			var r float32
			switch t.Op {
			case OFpAdd:
				r = x + y
			case OFpSub:
				r = x - y
			case OFpMul:
				r = x * y
			case OFpDiv:
				r = x / y
			}
			return uint64(math.Float32bits(r))
		}
		x, y := f64(a(0)), f64(a(1))
		var r float64
		switch t.Op {
		case OFpAdd:
			r = x + y
		case OFpSub:
			r = x - y
		case OFpMul:
			r = x * y
		case OFpDiv:
			r = x / y
		}
		return math.Float64bits(r)
	case OFpNeg:
		if t.S.W == 64 {
			return a(0) ^ (1 << 63)
		}
		return a(0) ^ (1 << 31)
	case OFpAbs:
		if t.S.W == 64 {
			return a(0) &^ (1 << 63)
		}
		return a(0) &^ (1 << 31)
	case OFpLt:
		return b2u(fpOf(t.Args[0].S.W, a(0)) < fpOf(t.Args[0].S.W, a(1)))
	case OFpLe:
		return b2u(fpOf(t.Args[0].S.W, a(0)) <= fpOf(t.Args[0].S.W, a(1)))
	case OFpEq:
		return b2u(fpOf(t.Args[0].S.W, a(0)) == fpOf(t.Args[0].S.W, a(1)))
	case OFpIsNaN:
		x := fpOf(t.Args[0].S.W, a(0))
		return b2u(x != x)
	case OFpIsInf:
		return b2u(math.IsInf(fpOf(t.Args[0].S.W, a(0)), 0))
	case OFpIsZero:
		return b2u(fpOf(t.Args[0].S.W, a(0)) == 0)
	case OFpIsNeg:
		x := fpOf(t.Args[0].S.W, a(0))
		return b2u(x == x && math.Signbit(x))
	case OFpRound:
		return fpBits(t.S.W, roundMode(t.A, fpOf(t.S.W, a(0))))
	case OFpFromSBV:
		if t.S.W == 32 {
			return uint64(math.Float32bits(float32(sext(a(0), t.Args[0].S.W))))
		}
		return math.Float64bits(float64(sext(a(0), t.Args[0].S.W)))
	case OFpFromUBV:
		if t.S.W == 32 {
			return uint64(math.Float32bits(float32(a(0))))
		}
		return math.Float64bits(float64(a(0)))
	case OFpFromFP:
		return fpBits(t.S.W, fpOf(t.Args[0].S.W, a(0)))
	case OFpToSBV, OFpToUBV:
		v, _ := fpToIntConst(fpOf(t.Args[0].S.W, a(0)), t.Op == OFpToSBV, t.S.W)
		return v
	case OFpOfBits:
		return a(0)
	case OSelect:
		tab := e.C.Tables[t.Name]
		i := a(0)
		if i >= uint64(len(tab.Vals)) {
			return 0
		}
		return tab.Vals[i]
	case OUF:
		if v, ok := e.M["uf:"+t.Name+ufKey(e, t)]; ok {
			return v
		}
		if f, ok := UFInterp[t.Name]; ok {
			args := make([]uint64, len(t.Args))
			for i := range t.Args {
				args[i] = a(i)
			}
			return f(args)
		}
		return 0
	}
	panic(fmt.Sprintf("smt: eval op %d", t.Op))
}

func ufKey(e *Evaluator, t *Term) string {
	s := ""
	for _, x := range t.Args {
		s += fmt.Sprintf(",%x", e.Eval(x))
	}
	return s
}

// FastEval is a reusable evaluator: the memo is an array indexed by term ID with epoch
// stamps, so it can be reset in O(1) between assignments (used for brute-force
// enumeration of small variable sets).
type FastEval struct {
	C     *Ctx
	M     Model
	vals  []uint64
	stamp []uint32
	epoch uint32
}

func NewFastEval(c *Ctx) *FastEval { return &FastEval{C: c, epoch: 1} }

func (e *FastEval) Reset(m Model) {
	e.M = m
	e.epoch++
	if e.epoch == 0 {
		for k := range e.stamp {
			e.stamp[k] = 0
		}
		e.epoch = 1
	}
}

func (e *FastEval) grow(id int) {
	if id < len(e.vals) {
		return
	}
	n := id*2 + 64
	nv := make([]uint64, n)
	ns := make([]uint32, n)
	copy(nv, e.vals)
	copy(ns, e.stamp)
	e.vals, e.stamp = nv, ns
}

// Set overrides the value of a variable term for the current epoch.
func (e *FastEval) Set(v *Term, val uint64) {
	e.grow(v.ID)
	e.vals[v.ID] = val & mask(v.S.W)
	e.stamp[v.ID] = e.epoch
}

func (e *FastEval) Eval(t *Term) uint64 {
	if t.Op == OConst {
		return t.Val
	}
	e.grow(t.ID)
	if e.stamp[t.ID] == e.epoch {
		return e.vals[t.ID]
	}
	// reuse the reference evaluator's semantics through a tiny adapter
	ev := Evaluator{C: e.C, M: e.M, fast: e}
	v := ev.eval1(t)
	e.grow(t.ID)
	e.vals[t.ID] = v
	e.stamp[t.ID] = e.epoch
	return v
}
