package smt

import "testing"

func TestBasic(t *testing.T) {
	for _, kind := range []string{"z3", "z3-new", "cvc5"} {
		c := NewCtx()
		s, err := NewSession(c, kind, 20000)
		if err != nil {
			t.Fatal(err)
		}
		x := c.Var("x", BV(8))
		y := c.Var("y", BV(8))
		sum := c.BvBin(OBvAdd, x, y)
		q := c.And(c.Eq(sum, c.BVConst(8, 5)), c.BvCmp(OBvUlt, c.BVConst(8, 200), x))
		r, m := s.Check([]*Term{q}, []*Term{x, y})
		if r != Sat {
			t.Fatalf("%s: %v", kind, r)
		}
		e := NewEvaluator(c, m)
		if e.Eval(q) != 1 {
			t.Fatalf("%s: model does not satisfy: %v", kind, m)
		}
		// fp
		fb := c.Var("fb", BV(64))
		f := c.FpOfBits(fb)
		q2 := c.And(c.FpPred(OFpIsNaN, c.FpBin(OFpDiv, f, f)), c.Not(c.FpPred(OFpIsNaN, f)))
		r, m = s.Check([]*Term{q2}, []*Term{fb})
		if r != Sat || NewEvaluator(c, m).Eval(q2) != 1 {
			t.Fatalf("%s fp: %v %v", kind, r, m)
		}
		tab := &Table{Name: "tab1", Idx: BV(8), Elt: BV(8), Vals: make([]uint64, 256)}
		for i := range tab.Vals {
			tab.Vals[i] = uint64(i*7) & 255
		}
		q3 := c.Eq(c.Select(tab, x), c.BVConst(8, 14))
		r, m = s.Check([]*Term{q3, c.Not(c.Eq(x, c.BVConst(8, 2)))}, []*Term{x})
		if r != Unsat {
			t.Fatalf("%s tab: %v %v", kind, r, m)
		}
		uf := c.UF("fmod", FP(64), f, f)
		r, _ = s.Check([]*Term{c.Not(c.Eq(uf, c.UF("fmod", FP(64), f, f)))}, nil)
		if r != Unsat {
			t.Fatalf("%s uf: %v", kind, r)
		}
		t.Logf("%s ok queries=%d errors=%d", kind, s.Queries, s.Errors)
		s.Close()
	}
}
