package smt

import (
	"fmt"
	"math"
	"strings"
)

func bvLit(w int, v uint64) string {
	v &= mask(w)
	if w%4 == 0 {
		return fmt.Sprintf("#x%0*x", w/4, v)
	}
	return fmt.Sprintf("#b%0*b", w, v)
}

func fpLit(w int, v uint64) string {
	if w == 64 {
		return fmt.Sprintf("(fp %s %s %s)", bvLit(1, v>>63), bvLit(11, (v>>52)&0x7ff), bvLit(52, v&((1<<52)-1)))
	}
	return fmt.Sprintf("(fp %s %s %s)", bvLit(1, (v>>31)&1), bvLit(8, (v>>23)&0xff), bvLit(23, v&((1<<23)-1)))
}

var rmNames = []string{"RNE", "RTP", "RTN", "RTZ", "RNA"}

func fpTo(w int) string {
	if w == 32 {
		return "(_ to_fp 8 24)"
	}
	return "(_ to_fp 11 53)"
}

func symName(s string) string {
	// SMT-LIB quoted symbol; names never contain '|' or '\'
	return "|" + s + "|"
}

// ref gives the text used to refer to term t from another definition.
func ref(t *Term) string {
	switch t.Op {
	case OConst:
		switch t.S.K {
		case SBool:
			if t.Val == 1 {
				return "true"
			}
			return "false"
		case SBV:
			return bvLit(t.S.W, t.Val)
		default:
			if t.S.W == 64 {
				f := math.Float64frombits(t.Val)
				if f != f {
					return "(_ NaN 11 53)"
				}
			} else {
				f := math.Float32frombits(uint32(t.Val))
				if f != f {
					return "(_ NaN 8 24)"
				}
			}
			return fpLit(t.S.W, t.Val)
		}
	case OVar:
		return symName(t.Name)
	}
	return fmt.Sprintf("t%d", t.ID)
}

var opNames = map[Op]string{
	ONot: "not", OAnd: "and", OOr: "or", OIte: "ite", OEq: "=",
	OBvAdd: "bvadd", OBvSub: "bvsub", OBvMul: "bvmul", OBvUdiv: "bvudiv", OBvSdiv: "bvsdiv",
	OBvUrem: "bvurem", OBvSrem: "bvsrem", OBvAnd: "bvand", OBvOr: "bvor", OBvXor: "bvxor",
	OBvNot: "bvnot", OBvNeg: "bvneg", OBvShl: "bvshl", OBvLshr: "bvlshr", OBvAshr: "bvashr",
	OBvUlt: "bvult", OBvUle: "bvule", OBvSlt: "bvslt", OBvSle: "bvsle", OConcat: "concat",
	OFpNeg: "fp.neg", OFpAbs: "fp.abs", OFpLt: "fp.lt", OFpLe: "fp.leq", OFpEq: "fp.eq",
	OFpIsNaN: "fp.isNaN", OFpIsInf: "fp.isInfinite", OFpIsZero: "fp.isZero", OFpIsNeg: "fp.isNegative",
}

// body gives the defining expression of a non-leaf term.
func body(t *Term) string {
	a := func(i int) string { return ref(t.Args[i]) }
	switch t.Op {
	case OExtract:
		return fmt.Sprintf("((_ extract %d %d) %s)", t.A, t.B, a(0))
	case OZext:
		return fmt.Sprintf("((_ zero_extend %d) %s)", t.S.W-t.Args[0].S.W, a(0))
	case OSext:
		return fmt.Sprintf("((_ sign_extend %d) %s)", t.S.W-t.Args[0].S.W, a(0))
	case OFpAdd, OFpSub, OFpMul, OFpDiv:
		n := map[Op]string{OFpAdd: "fp.add", OFpSub: "fp.sub", OFpMul: "fp.mul", OFpDiv: "fp.div"}[t.Op]
		return fmt.Sprintf("(%s RNE %s %s)", n, a(0), a(1))
	case OFpRound:
		return fmt.Sprintf("(fp.roundToIntegral %s %s)", rmNames[t.A], a(0))
	case OFpFromSBV:
		return fmt.Sprintf("(%s RNE %s)", fpTo(t.S.W), a(0))
	case OFpFromUBV:
		if t.S.W == 32 {
			return fmt.Sprintf("((_ to_fp_unsigned 8 24) RNE %s)", a(0))
		}
		return fmt.Sprintf("((_ to_fp_unsigned 11 53) RNE %s)", a(0))
	case OFpFromFP:
		return fmt.Sprintf("(%s RNE %s)", fpTo(t.S.W), a(0))
	case OFpToSBV:
		return fmt.Sprintf("((_ fp.to_sbv %d) RTZ %s)", t.S.W, a(0))
	case OFpToUBV:
		return fmt.Sprintf("((_ fp.to_ubv %d) RTZ %s)", t.S.W, a(0))
	case OFpOfBits:
		return fmt.Sprintf("(%s %s)", fpTo(t.S.W), a(0))
	case OUF:
		if len(t.Args) == 0 {
			return symName(t.Name)
		}
		var sb strings.Builder
		sb.WriteString("(" + symName(t.Name))
		for i := range t.Args {
			sb.WriteString(" " + a(i))
		}
		sb.WriteString(")")
		return sb.String()
	case OSelect:
		return fmt.Sprintf("(%s %s)", symName(t.Name), a(0))
	}
	n, ok := opNames[t.Op]
	if !ok {
		panic(fmt.Sprintf("smt: no printer for op %d", t.Op))
	}
	var sb strings.Builder
	sb.WriteString("(" + n)
	for i := range t.Args {
		sb.WriteString(" " + a(i))
	}
	sb.WriteString(")")
	return sb.String()
}

func tableDef(tab *Table) string {
	// A constant table is a function defined by a binary decision tree over the index
	// bits (bit-blasts directly; z3's array theory is very slow on long store chains).
	lit := func(s Sort, v uint64) string {
		if s.K == SBool {
			if v != 0 {
				return "true"
			}
			return "false"
		}
		return bvLit(s.W, v)
	}
	w := tab.Idx.W
	var build func(lo, hi, bit int) string
	build = func(lo, hi, bit int) string {
		// entries lo..hi-1 (hi-lo is a power of two = 2^(bit+1))
		same := true
		for k := lo + 1; k < hi; k++ {
			if tab.Vals[k] != tab.Vals[lo] {
				same = false
				break
			}
		}
		if same || bit < 0 {
			return lit(tab.Elt, tab.Vals[lo])
		}
		mid := (lo + hi) / 2
		return fmt.Sprintf("(ite (= ((_ extract %d %d) i) #b1) %s %s)", bit, bit, build(mid, hi, bit-1), build(lo, mid, bit-1))
	}
	return fmt.Sprintf("(define-fun %s ((i %s)) %s %s)", symName(tab.Name), tab.Idx, tab.Elt, build(0, 1<<uint(w), w-1))
}

// Emit appends to out the declarations/definitions needed for t that are not yet in
// defined, in dependency order, and marks them.
func (c *Ctx) Emit(t *Term, defined map[int]bool, declared map[string]bool, out *strings.Builder) {
	if defined[t.ID] {
		return
	}
	// iterative post-order
	type fr struct {
		t *Term
		i int
	}
	stack := []fr{{t, 0}}
	for len(stack) > 0 {
		top := &stack[len(stack)-1]
		if defined[top.t.ID] {
			stack = stack[:len(stack)-1]
			continue
		}
		if top.i < len(top.t.Args) {
			ch := top.t.Args[top.i]
			top.i++
			if !defined[ch.ID] {
				stack = append(stack, fr{ch, 0})
			}
			continue
		}
		x := top.t
		stack = stack[:len(stack)-1]
		defined[x.ID] = true
		switch x.Op {
		case OConst:
		case OVar:
			if !declared["v:"+x.Name] {
				declared["v:"+x.Name] = true
				fmt.Fprintf(out, "(declare-const %s %s)\n", symName(x.Name), x.S)
			}
		default:
			if x.Op == OUF && !declared["f:"+x.Name] {
				declared["f:"+x.Name] = true
				sig := c.UFs[x.Name]
				var as []string
				for _, s := range sig.Args {
					as = append(as, s.String())
				}
				fmt.Fprintf(out, "(declare-fun %s (%s) %s)\n", symName(x.Name), strings.Join(as, " "), sig.Ret)
			}
			if x.Op == OSelect && !declared["t:"+x.Name] {
				declared["t:"+x.Name] = true
				out.WriteString(tableDef(c.Tables[x.Name]))
				out.WriteString("\n")
			}
			fmt.Fprintf(out, "(define-fun t%d () %s %s)\n", x.ID, x.S, body(x))
		}
	}
}

// String renders a term as a nested expression (debugging, evidence samples).
func (t *Term) String() string {
	var sb strings.Builder
	var rec func(t *Term, d int)
	rec = func(t *Term, d int) {
		if t.Op == OConst || t.Op == OVar {
			sb.WriteString(ref(t))
			return
		}
		if d > 6 {
			sb.WriteString("…")
			return
		}
		n := opNames[t.Op]
		if n == "" {
			n = fmt.Sprintf("op%d[%s,%d,%d]", t.Op, t.Name, t.A, t.B)
		}
		sb.WriteString("(" + n)
		for _, a := range t.Args {
			sb.WriteString(" ")
			rec(a, d+1)
		}
		sb.WriteString(")")
	}
	rec(t, 0)
	return sb.String()
}
