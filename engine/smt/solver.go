package smt

import (
	"bufio"
	"fmt"
	"io"
	"os"
	"os/exec"
	"strconv"
	"strings"
	"time"
)

type Result int

const (
	Unsat Result = iota
	Sat
	Unknown
)

func (r Result) String() string { return [...]string{"unsat", "sat", "unknown"}[r] }

// Session is one long-lived solver process.  Definitions are permanent (level 0);
// queries are check-sat-assuming over Boolean indicator constants, so nothing is ever
// popped and terms are defined once per session.
type Session struct {
	C         *Ctx
	Kind      string // "z3", "z3-new", "cvc5"
	TimeoutMs int
	cmd       *exec.Cmd
	in        io.WriteCloser
	out       *bufio.Reader
	lines     chan string
	defined   map[int]bool
	declared  map[string]bool
	indic     map[int]bool
	seq       int
	Queries   int
	SolverNs  int64
	Restarts  int
	Log       io.Writer // optional transcript
	Errors    int
	facts     []*Term // permanent assertions (true facts about uninterpreted functions)
	factSet   map[int]bool
	factsSent int
}

// AddFact asserts t permanently (it must be valid in the intended interpretation).
func (s *Session) AddFact(t *Term) {
	if t.IsConst() {
		return
	}
	if s.factSet == nil {
		s.factSet = map[int]bool{}
	}
	if s.factSet[t.ID] {
		return
	}
	s.factSet[t.ID] = true
	s.facts = append(s.facts, t)
}

func NewSession(c *Ctx, kind string, timeoutMs int) (*Session, error) {
	s := &Session{C: c, Kind: kind, TimeoutMs: timeoutMs}
	if p := os.Getenv("GOSX_SMTLOG"); p != "" {
		f, _ := os.OpenFile(p, os.O_CREATE|os.O_WRONLY|os.O_APPEND, 0644)
		s.Log = f
	}
	return s, s.start()
}

func (s *Session) start() error {
	var cmd *exec.Cmd
	switch s.Kind {
	case "z3", "z3-new":
		cmd = exec.Command(s.Kind, "-in", "-smt2")
	case "cvc5":
		cmd = exec.Command("cvc5", "--incremental", "--lang=smt2", fmt.Sprintf("--tlimit-per=%d", s.TimeoutMs), "--produce-models", "--fp-exp")
	default:
		return fmt.Errorf("unknown solver %q", s.Kind)
	}
	in, err := cmd.StdinPipe()
	if err != nil {
		return err
	}
	out, err := cmd.StdoutPipe()
	if err != nil {
		return err
	}
	cmd.Stderr = cmd.Stdout
	if err := cmd.Start(); err != nil {
		return err
	}
	s.cmd, s.in, s.out = cmd, in, bufio.NewReaderSize(out, 1<<20)
	s.defined = map[int]bool{}
	s.declared = map[string]bool{}
	s.indic = map[int]bool{}
	s.factsSent = 0
	s.lines = make(chan string, 1024)
	go func(r *bufio.Reader, ch chan string) {
		for {
			l, err := r.ReadString('\n')
			if l != "" {
				ch <- strings.TrimRight(l, "\r\n")
			}
			if err != nil {
				close(ch)
				return
			}
		}
	}(s.out, s.lines)
	pre := "(set-option :produce-models true)\n"
	if s.Kind == "cvc5" {
		pre = "(set-logic ALL)\n"
	} else {
		pre += fmt.Sprintf("(set-option :timeout %d)\n", s.TimeoutMs)
	}
	s.send(pre)
	return nil
}

func (s *Session) send(txt string) {
	if s.Log != nil {
		io.WriteString(s.Log, txt)
	}
	io.WriteString(s.in, txt)
}

func (s *Session) Close() {
	if s.cmd != nil {
		s.in.Close()
		s.cmd.Process.Kill()
		s.cmd.Wait()
		s.cmd = nil
	}
}

func (s *Session) restart() {
	s.Close()
	s.Restarts++
	s.start()
}

// readUntil collects output lines up to the marker; ok=false on timeout/EOF.
func (s *Session) readUntil(marker string, d time.Duration) ([]string, bool) {
	var got []string
	timer := time.NewTimer(d)
	defer timer.Stop()
	for {
		select {
		case l, ok := <-s.lines:
			if !ok {
				return got, false
			}
			if l == marker || l == "\""+marker+"\"" {
				return got, true
			}
			got = append(got, l)
		case <-timer.C:
			return got, false
		}
	}
}

// Check decides satisfiability of the conjunction of conj.  wantModel lists variables
// whose values are returned when the answer is Sat.
func (s *Session) Check(conj []*Term, wantModel []*Term) (Result, Model) {
	// trivial cases
	var lits []*Term
	for _, t := range conj {
		if t.IsConst() {
			if t.Val == 0 {
				return Unsat, nil
			}
			continue
		}
		lits = append(lits, t)
	}
	s.Queries++
	t0 := time.Now()
	defer func() { s.SolverNs += time.Since(t0).Nanoseconds() }()

	for attempt := 0; attempt < 2; attempt++ {
		var sb strings.Builder
		var names []string
		for ; s.factsSent < len(s.facts); s.factsSent++ {
			f := s.facts[s.factsSent]
			s.C.Emit(f, s.defined, s.declared, &sb)
			fmt.Fprintf(&sb, "(assert %s)\n", ref(f))
		}
		for _, t := range lits {
			s.C.Emit(t, s.defined, s.declared, &sb)
			if t.Op == OVar {
				names = append(names, symName(t.Name))
				continue
			}
			if !s.indic[t.ID] {
				s.indic[t.ID] = true
				fmt.Fprintf(&sb, "(declare-const a%d Bool)\n(assert (= a%d %s))\n", t.ID, t.ID, ref(t))
			}
			names = append(names, fmt.Sprintf("a%d", t.ID))
		}
		for _, v := range wantModel {
			s.C.Emit(v, s.defined, s.declared, &sb)
		}
		s.seq++
		marker := fmt.Sprintf("<<%d>>", s.seq)
		fmt.Fprintf(&sb, "(check-sat-assuming (%s))\n(echo \"%s\")\n", strings.Join(names, " "), marker)
		s.send(sb.String())
		lines, ok := s.readUntil(marker, time.Duration(s.TimeoutMs)*time.Millisecond+10*time.Second)
		if !ok {
			s.restart()
			return Unknown, nil
		}
		res := Unknown
		bad := false
		for _, l := range lines {
			switch {
			case l == "sat":
				res = Sat
			case l == "unsat":
				res = Unsat
			case l == "unknown":
				res = Unknown
			case strings.Contains(l, "(error") || strings.Contains(l, "error"):
				bad = true
				if s.Log != nil {
					fmt.Fprintf(s.Log, "; SOLVER-ERROR %s\n", l)
				}
			}
		}
		if bad {
			s.Errors++
			fmt.Fprintf(os.Stderr, "gosx: solver error: %v\n", lines)
			s.restart()
			if attempt == 0 {
				continue
			}
			return Unknown, nil
		}
		if res != Sat || len(wantModel) == 0 {
			return res, nil
		}
		// model
		var vs []string
		for _, v := range wantModel {
			vs = append(vs, symName(v.Name))
		}
		s.seq++
		marker = fmt.Sprintf("<<%d>>", s.seq)
		s.send(fmt.Sprintf("(get-value (%s))\n(echo \"%s\")\n", strings.Join(vs, " "), marker))
		lines, ok = s.readUntil(marker, 30*time.Second)
		if !ok {
			s.restart()
			return Unknown, nil
		}
		m, err := parseModel(strings.Join(lines, " "), wantModel)
		if err != nil {
			fmt.Fprintf(os.Stderr, "gosx: model parse: %v in %q\n", err, lines)
			s.Errors++
			return Unknown, nil
		}
		return Sat, m
	}
	return Unknown, nil
}

// parseModel parses "((|a| #x01) (|b| true) ...)".
func parseModel(txt string, vars []*Term) (Model, error) {
	m := Model{}
	toks := tokenize(txt)
	// expect ( ( name value ) ... )
	i := 0
	if len(toks) == 0 || toks[0] != "(" {
		return nil, fmt.Errorf("no model")
	}
	i++
	for i < len(toks) && toks[i] == "(" {
		i++
		name := strings.Trim(toks[i], "|")
		i++
		// value: atom or parenthesised
		var val []string
		if toks[i] == "(" {
			depth := 0
			for {
				val = append(val, toks[i])
				if toks[i] == "(" {
					depth++
				} else if toks[i] == ")" {
					depth--
					if depth == 0 {
						i++
						break
					}
				}
				i++
			}
		} else {
			val = []string{toks[i]}
			i++
		}
		if toks[i] != ")" {
			return nil, fmt.Errorf("model syntax near %q", toks[i])
		}
		i++
		v, err := parseValue(val)
		if err != nil {
			return nil, fmt.Errorf("%s: %v", name, err)
		}
		m[name] = v
	}
	return m, nil
}

func tokenize(s string) []string {
	var toks []string
	i := 0
	for i < len(s) {
		c := s[i]
		switch {
		case c == ' ' || c == '\t' || c == '\n':
			i++
		case c == '(' || c == ')':
			toks = append(toks, string(c))
			i++
		case c == '|':
			j := strings.IndexByte(s[i+1:], '|')
			toks = append(toks, s[i:i+j+2])
			i += j + 2
		default:
			j := i
			for j < len(s) && !strings.ContainsRune(" \t\n()", rune(s[j])) {
				j++
			}
			toks = append(toks, s[i:j])
			i = j
		}
	}
	return toks
}

func parseValue(v []string) (uint64, error) {
	if len(v) == 1 {
		a := v[0]
		switch {
		case a == "true":
			return 1, nil
		case a == "false":
			return 0, nil
		case strings.HasPrefix(a, "#x"):
			return strconv.ParseUint(a[2:], 16, 64)
		case strings.HasPrefix(a, "#b"):
			return strconv.ParseUint(a[2:], 2, 64)
		}
		return 0, fmt.Errorf("value %q", a)
	}
	// (_ bv123 8)
	if len(v) == 5 && v[1] == "_" && strings.HasPrefix(v[2], "bv") {
		return strconv.ParseUint(v[2][2:], 10, 64)
	}
	return 0, fmt.Errorf("value %v", v)
}
