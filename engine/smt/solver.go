package smt

import (
	"bufio"
	"fmt"
	"io"
	"os"
	"os/exec"
	"strconv"
	"strings"
	"time"
)

type Result int

const (
	Unsat Result = iota
	Sat
	Unknown
)

func (r Result) String() string { return [...]string{"unsat", "sat", "unknown"}[r] }

// Session is one long-lived solver process.  Definitions are permanent (level 0);
// queries are check-sat-assuming over Boolean indicator constants, so nothing is ever
// popped and terms are defined once per session.
type Session struct {
	C         *Ctx
	Kind      string // "z3", "z3-new", "cvc5"
	TimeoutMs int
	IncMs     int // time limit of the incremental attempt; unknown answers are retried one-shot
	OneShots  int
	RestartEvery int // restart the solver process after this many queries (keeps its context small)
	sinceStart   int
	cmd       *exec.Cmd
	in        io.WriteCloser
	out       *bufio.Reader
	lines     chan string
	defined   map[int]bool
	declared  map[string]bool
	indic     map[int]bool
	seq       int
	Queries   int
	SolverNs  int64
	Restarts  int
	Log       io.Writer // optional transcript
	Errors    int
	factSet   map[int]bool
	factsBy   map[string][]*Term
	ufMemo    map[int][]string
}

// AddFact records a true fact about the uninterpreted function name; it is added as
// an extra assumption to every query whose terms mention that function (and to no
// other query, so pure floating-point queries stay pure).
func (s *Session) AddFact(name string, t *Term) {
	if t.IsConst() {
		return
	}
	if s.factSet == nil {
		s.factSet = map[int]bool{}
		s.factsBy = map[string][]*Term{}
		s.ufMemo = map[int][]string{}
	}
	if s.factSet[t.ID] {
		return
	}
	s.factSet[t.ID] = true
	s.factsBy[name] = append(s.factsBy[name], t)
}

// ufNames lists the uninterpreted functions occurring in t.
func (s *Session) ufNames(t *Term, acc map[string]bool, seen map[int]bool) {
	if seen[t.ID] {
		return
	}
	seen[t.ID] = true
	if t.Op == OUF {
		acc[t.Name] = true
	}
	for _, a := range t.Args {
		s.ufNames(a, acc, seen)
	}
}

func (s *Session) withFacts(lits []*Term) []*Term {
	if len(s.factsBy) == 0 {
		return lits
	}
	acc, seen := map[string]bool{}, map[int]bool{}
	for _, t := range lits {
		s.ufNames(t, acc, seen)
	}
	for name := range acc {
		lits = append(lits, s.factsBy[name]...)
	}
	return lits
}

func NewSession(c *Ctx, kind string, timeoutMs int) (*Session, error) {
	s := &Session{C: c, Kind: kind, TimeoutMs: timeoutMs, IncMs: 8000, RestartEvery: 400}
	if v, err := strconv.Atoi(os.Getenv("GOSX_RESTART_EVERY")); err == nil && v > 0 {
		s.RestartEvery = v
	}
	if s.IncMs > timeoutMs {
		s.IncMs = timeoutMs
	}
	if p := os.Getenv("GOSX_SMTLOG"); p != "" {
		f, _ := os.OpenFile(p, os.O_CREATE|os.O_WRONLY|os.O_APPEND, 0644)
		s.Log = f
	}
	return s, s.start()
}

func (s *Session) start() error {
	var cmd *exec.Cmd
	switch s.Kind {
	case "z3", "z3-new":
		cmd = exec.Command(s.Kind, "-in", "-smt2")
	case "cvc5":
		cmd = exec.Command("cvc5", "--incremental", "--lang=smt2", fmt.Sprintf("--tlimit-per=%d", s.IncMs), "--produce-models", "--fp-exp")
	default:
		return fmt.Errorf("unknown solver %q", s.Kind)
	}
	in, err := cmd.StdinPipe()
	if err != nil {
		return err
	}
	out, err := cmd.StdoutPipe()
	if err != nil {
		return err
	}
	cmd.Stderr = cmd.Stdout
	if err := cmd.Start(); err != nil {
		return err
	}
	s.cmd, s.in, s.out = cmd, in, bufio.NewReaderSize(out, 1<<20)
	s.defined = map[int]bool{}
	s.declared = map[string]bool{}
	s.indic = map[int]bool{}
	s.sinceStart = 0
	s.lines = make(chan string, 1024)
	go func(r *bufio.Reader, ch chan string) {
		for {
			l, err := r.ReadString('\n')
			if l != "" {
				ch <- strings.TrimRight(l, "\r\n")
			}
			if err != nil {
				close(ch)
				return
			}
		}
	}(s.out, s.lines)
	pre := "(set-option :produce-models true)\n"
	if s.Kind == "cvc5" {
		pre = "(set-logic ALL)\n"
	} else {
		pre += fmt.Sprintf("(set-option :timeout %d)\n", s.IncMs)
	}
	s.send(pre)
	return nil
}

func (s *Session) send(txt string) {
	if s.Log != nil {
		io.WriteString(s.Log, txt)
	}
	io.WriteString(s.in, txt)
}

func (s *Session) Close() {
	if s.cmd != nil {
		s.in.Close()
		s.cmd.Process.Kill()
		s.cmd.Wait()
		s.cmd = nil
	}
}

func (s *Session) restart() {
	s.Close()
	s.Restarts++
	s.start()
}

// readUntil collects output lines up to the marker; ok=false on timeout/EOF.
func (s *Session) readUntil(marker string, d time.Duration) ([]string, bool) {
	var got []string
	timer := time.NewTimer(d)
	defer timer.Stop()
	for {
		select {
		case l, ok := <-s.lines:
			if !ok {
				return got, false
			}
			if l == marker || l == "\""+marker+"\"" {
				return got, true
			}
			got = append(got, l)
		case <-timer.C:
			return got, false
		}
	}
}

// Check decides satisfiability of the conjunction of conj.  wantModel lists variables
// whose values are returned when the answer is Sat.
func (s *Session) Check(conj []*Term, wantModel []*Term) (Result, Model) {
	// trivial cases
	var lits []*Term
	for _, t := range conj {
		if t.IsConst() {
			if t.Val == 0 {
				return Unsat, nil
			}
			continue
		}
		lits = append(lits, t)
	}
	lits = s.withFacts(lits)
	s.Queries++
	s.sinceStart++
	if s.sinceStart > s.RestartEvery {
		s.restart()
	}
	t0 := time.Now()
	defer func() { s.SolverNs += time.Since(t0).Nanoseconds() }()

	for attempt := 0; attempt < 2; attempt++ {
		var sb strings.Builder
		var names []string
		for _, t := range lits {
			s.C.Emit(t, s.defined, s.declared, &sb)
			if t.Op == OVar {
				names = append(names, symName(t.Name))
				continue
			}
			if !s.indic[t.ID] {
				s.indic[t.ID] = true
				fmt.Fprintf(&sb, "(declare-const a%d Bool)\n(assert (= a%d %s))\n", t.ID, t.ID, ref(t))
			}
			names = append(names, fmt.Sprintf("a%d", t.ID))
		}
		for _, v := range wantModel {
			s.C.Emit(v, s.defined, s.declared, &sb)
		}
		s.seq++
		marker := fmt.Sprintf("<<%d>>", s.seq)
		fmt.Fprintf(&sb, "(check-sat-assuming (%s))\n(echo \"%s\")\n", strings.Join(names, " "), marker)
		s.send(sb.String())
		lines, ok := s.readUntil(marker, time.Duration(s.IncMs)*time.Millisecond+10*time.Second)
		if !ok {
			s.restart()
			return s.oneShot(lits, wantModel)
		}
		res := Unknown
		bad := false
		for _, l := range lines {
			switch {
			case l == "sat":
				res = Sat
			case l == "unsat":
				res = Unsat
			case l == "unknown":
				res = Unknown
			case strings.Contains(l, "(error") || strings.Contains(l, "error"):
				bad = true
				if s.Log != nil {
					fmt.Fprintf(s.Log, "; SOLVER-ERROR %s\n", l)
				}
			}
		}
		if bad {
			s.Errors++
			fmt.Fprintf(os.Stderr, "gosx: solver error: %v\n", lines)
			s.restart()
			if attempt == 0 {
				continue
			}
			return Unknown, nil
		}
		if res == Unknown {
			return s.oneShot(lits, wantModel)
		}
		if res != Sat || len(wantModel) == 0 {
			return res, nil
		}
		// model
		var vs []string
		for _, v := range wantModel {
			vs = append(vs, symName(v.Name))
		}
		s.seq++
		marker = fmt.Sprintf("<<%d>>", s.seq)
		s.send(fmt.Sprintf("(get-value (%s))\n(echo \"%s\")\n", strings.Join(vs, " "), marker))
		lines, ok = s.readUntil(marker, 30*time.Second)
		if !ok {
			s.restart()
			return Unknown, nil
		}
		m, err := parseModel(strings.Join(lines, " "), wantModel)
		if err != nil {
			fmt.Fprintf(os.Stderr, "gosx: model parse: %v in %q\n", err, lines)
			s.Errors++
			return Unknown, nil
		}
		return Sat, m
	}
	return Unknown, nil
}

// parseModel parses "((|a| #x01) (|b| true) ...)".
func parseModel(txt string, vars []*Term) (Model, error) {
	m := Model{}
	toks := tokenize(txt)
	// expect ( ( name value ) ... )
	i := 0
	if len(toks) == 0 || toks[0] != "(" {
		return nil, fmt.Errorf("no model")
	}
	i++
	for i < len(toks) && toks[i] == "(" {
		i++
		name := strings.Trim(toks[i], "|")
		i++
		// value: atom or parenthesised
		var val []string
		if toks[i] == "(" {
			depth := 0
			for {
				val = append(val, toks[i])
				if toks[i] == "(" {
					depth++
				} else if toks[i] == ")" {
					depth--
					if depth == 0 {
						i++
						break
					}
				}
				i++
			}
		} else {
			val = []string{toks[i]}
			i++
		}
		if toks[i] != ")" {
			return nil, fmt.Errorf("model syntax near %q", toks[i])
		}
		i++
		v, err := parseValue(val)
		if err != nil {
			return nil, fmt.Errorf("%s: %v", name, err)
		}
		m[name] = v
	}
	return m, nil
}

func tokenize(s string) []string {
	var toks []string
	i := 0
	for i < len(s) {
		c := s[i]
		switch {
		case c == ' ' || c == '\t' || c == '\n':
			i++
		case c == '(' || c == ')':
			toks = append(toks, string(c))
			i++
		case c == '|':
			j := strings.IndexByte(s[i+1:], '|')
			toks = append(toks, s[i:i+j+2])
			i += j + 2
		default:
			j := i
			for j < len(s) && !strings.ContainsRune(" \t\n()", rune(s[j])) {
				j++
			}
			toks = append(toks, s[i:j])
			i = j
		}
	}
	return toks
}

func parseValue(v []string) (uint64, error) {
	if len(v) == 1 {
		a := v[0]
		switch {
		case a == "true":
			return 1, nil
		case a == "false":
			return 0, nil
		case strings.HasPrefix(a, "#x"):
			return strconv.ParseUint(a[2:], 16, 64)
		case strings.HasPrefix(a, "#b"):
			return strconv.ParseUint(a[2:], 2, 64)
		}
		return 0, fmt.Errorf("value %q", a)
	}
	// (_ bv123 8)
	if len(v) == 5 && v[1] == "_" && strings.HasPrefix(v[2], "bv") {
		return strconv.ParseUint(v[2][2:], 10, 64)
	}
	return 0, fmt.Errorf("value %v", v)
}

// oneShot decides the query in a fresh, non-incremental solver process (much stronger
// preprocessing for floating-point queries than the incremental core).
func (s *Session) oneShot(lits []*Term, wantModel []*Term) (Result, Model) {
	s.OneShots++
	var sb strings.Builder
	defined, declared := map[int]bool{}, map[string]bool{}
	if s.Kind == "cvc5" {
		sb.WriteString("(set-logic ALL)\n(set-option :produce-models true)\n")
	} else {
		sb.WriteString("(set-option :produce-models true)\n")
	}
	for _, t := range lits {
		s.C.Emit(t, defined, declared, &sb)
		fmt.Fprintf(&sb, "(assert %s)\n", ref(t))
	}
	for _, v := range wantModel {
		s.C.Emit(v, defined, declared, &sb)
	}
	sb.WriteString("(check-sat)\n")
	var cmd *exec.Cmd
	switch s.Kind {
	case "cvc5":
		cmd = exec.Command("cvc5", "--lang=smt2", fmt.Sprintf("--tlimit=%d", s.TimeoutMs), "--fp-exp")
	default:
		cmd = exec.Command(s.Kind, "-in", "-smt2", fmt.Sprintf("-t:%d", s.TimeoutMs))
	}
	if len(wantModel) > 0 {
		var vs []string
		for _, v := range wantModel {
			vs = append(vs, symName(v.Name))
		}
		fmt.Fprintf(&sb, "(get-value (%s))\n", strings.Join(vs, " "))
	}
	if s.Log != nil {
		fmt.Fprintf(s.Log, "; ---- one-shot ----\n%s; ---- end one-shot ----\n", sb.String())
	}
	cmd.Stdin = strings.NewReader(sb.String())
	done := make(chan struct{})
	var out []byte
	go func() {
		out, _ = cmd.CombinedOutput()
		close(done)
	}()
	select {
	case <-done:
	case <-time.After(time.Duration(s.TimeoutMs)*time.Millisecond + 15*time.Second):
		if cmd.Process != nil {
			cmd.Process.Kill()
		}
		<-done
		return Unknown, nil
	}
	txt := string(out)
	first, rest, _ := strings.Cut(strings.TrimSpace(txt), "\n")
	switch strings.TrimSpace(first) {
	case "unsat":
		if strings.Contains(rest, "(error") && !strings.Contains(rest, "model is not available") {
			s.Errors++
			return Unknown, nil
		}
		return Unsat, nil
	case "sat":
		if len(wantModel) == 0 {
			return Sat, nil
		}
		m, err := parseModel(strings.ReplaceAll(rest, "\n", " "), wantModel)
		if err != nil {
			s.Errors++
			fmt.Fprintf(os.Stderr, "gosx: one-shot model parse: %v in %q\n", err, rest)
			return Unknown, nil
		}
		return Sat, m
	}
	return Unknown, nil
}
