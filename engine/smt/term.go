// Package smt: hash-consed terms over Bool / bit-vectors / IEEE floats, an
// SMT-LIB2 printer, a concrete evaluator and a pipe driver for z3/cvc5.
package smt

import (
	"fmt"
	"math"
	"math/bits"
	"strings"
)

type SortKind uint8

const (
	SBool SortKind = iota
	SBV
	SFP // W = 32 or 64
)

type Sort struct {
	K SortKind
	W int
}

var Bool = Sort{SBool, 1}

func BV(w int) Sort { return Sort{SBV, w} }
func FP(w int) Sort { return Sort{SFP, w} }

func (s Sort) String() string {
	switch s.K {
	case SBool:
		return "Bool"
	case SBV:
		return fmt.Sprintf("(_ BitVec %d)", s.W)
	default:
		if s.W == 32 {
			return "(_ FloatingPoint 8 24)"
		}
		return "(_ FloatingPoint 11 53)"
	}
}

type Op uint8

const (
	OConst Op = iota
	OVar
	ONot
	OAnd
	OOr
	OIte
	OEq // any sort; structural equality ("=")
	OBvAdd
	OBvSub
	OBvMul
	OBvUdiv
	OBvSdiv
	OBvUrem
	OBvSrem
	OBvAnd
	OBvOr
	OBvXor
	OBvNot
	OBvNeg
	OBvShl
	OBvLshr
	OBvAshr
	OBvUlt
	OBvUle
	OBvSlt
	OBvSle
	OConcat
	OExtract // A=hi, B=lo
	OZext    // to sort width
	OSext
	OFpAdd
	OFpSub
	OFpMul
	OFpDiv
	OFpNeg
	OFpAbs
	OFpLt
	OFpLe
	OFpEq // IEEE ==
	OFpIsNaN
	OFpIsInf
	OFpIsZero
	OFpIsNeg
	OFpRound   // A = rounding mode (RNE,RTP,RTN,RTZ,RNA)
	OFpFromSBV // bv -> fp (RNE)
	OFpFromUBV
	OFpFromFP // fp -> fp other width (RNE)
	OFpToSBV  // RTZ; result sort BV(W)
	OFpToUBV
	OFpOfBits // reinterpret bv as fp
	OUF       // uninterpreted function Name(args) -> sort
	OSelect   // Name = table id; args[0] index; constant table in Ctx.tables
)

const (
	RNE = iota
	RTP
	RTN
	RTZ
	RNA
)

type Term struct {
	Op   Op
	S    Sort
	Args []*Term
	Val  uint64 // OConst: bits (bool: 0/1)
	Name string // OVar / OUF / OSelect
	A, B int
	ID   int
}

func (t *Term) IsConst() bool { return t.Op == OConst }

type Table struct {
	Name string
	Idx  Sort
	Elt  Sort
	Vals []uint64
}

type Ctx struct {
	tab    map[string]*Term
	next   int
	Vars   []*Term // in creation order
	varIdx map[string]*Term
	Tables map[string]*Table
	UFs    map[string]ufSig
	True   *Term
	False  *Term
}

type ufSig struct {
	Args []Sort
	Ret  Sort
}

func NewCtx() *Ctx {
	c := &Ctx{tab: map[string]*Term{}, varIdx: map[string]*Term{}, Tables: map[string]*Table{}, UFs: map[string]ufSig{}}
	c.True = c.BoolConst(true)
	c.False = c.BoolConst(false)
	return c
}

func (c *Ctx) mk(op Op, s Sort, name string, a, b int, val uint64, args ...*Term) *Term {
	var sb strings.Builder
	fmt.Fprintf(&sb, "%d|%d.%d|%s|%d|%d|%x", op, s.K, s.W, name, a, b, val)
	for _, x := range args {
		fmt.Fprintf(&sb, "|%d", x.ID)
	}
	k := sb.String()
	if t, ok := c.tab[k]; ok {
		return t
	}
	c.next++
	t := &Term{Op: op, S: s, Args: args, Val: val, Name: name, A: a, B: b, ID: c.next}
	c.tab[k] = t
	return t
}

func mask(w int) uint64 {
	if w >= 64 {
		return ^uint64(0)
	}
	return (uint64(1) << uint(w)) - 1
}

func (c *Ctx) BoolConst(b bool) *Term {
	v := uint64(0)
	if b {
		v = 1
	}
	return c.mk(OConst, Bool, "", 0, 0, v)
}

func (c *Ctx) BVConst(w int, v uint64) *Term { return c.mk(OConst, BV(w), "", 0, 0, v&mask(w)) }
func (c *Ctx) FPConst64(f float64) *Term     { return c.mk(OConst, FP(64), "", 0, 0, math.Float64bits(f)) }
func (c *Ctx) FPConst32(f float32) *Term {
	return c.mk(OConst, FP(32), "", 0, 0, uint64(math.Float32bits(f)))
}

// Var returns the variable with that name, creating it when new.
func (c *Ctx) Var(name string, s Sort) *Term {
	if t, ok := c.varIdx[name]; ok {
		if t.S != s {
			panic(fmt.Sprintf("smt: variable %s redeclared with sort %v (was %v)", name, s, t.S))
		}
		return t
	}
	t := c.mk(OVar, s, name, 0, 0, 0)
	c.varIdx[name] = t
	c.Vars = append(c.Vars, t)
	return t
}

func (c *Ctx) LookupVar(name string) *Term { return c.varIdx[name] }

func sext(v uint64, w int) int64 {
	if w >= 64 {
		return int64(v)
	}
	sh := uint(64 - w)
	return int64(v<<sh) >> sh
}

// ---- Boolean ----

func (c *Ctx) Not(a *Term) *Term {
	if a.IsConst() {
		return c.BoolConst(a.Val == 0)
	}
	if a.Op == ONot {
		return a.Args[0]
	}
	return c.mk(ONot, Bool, "", 0, 0, 0, a)
}

func (c *Ctx) And(a, b *Term) *Term {
	if a.IsConst() {
		if a.Val == 0 {
			return c.False
		}
		return b
	}
	if b.IsConst() {
		if b.Val == 0 {
			return c.False
		}
		return a
	}
	if a == b {
		return a
	}
	if a.ID > b.ID {
		a, b = b, a
	}
	return c.mk(OAnd, Bool, "", 0, 0, 0, a, b)
}

func (c *Ctx) Or(a, b *Term) *Term {
	if a.IsConst() {
		if a.Val == 1 {
			return c.True
		}
		return b
	}
	if b.IsConst() {
		if b.Val == 1 {
			return c.True
		}
		return a
	}
	if a == b {
		return a
	}
	if a.ID > b.ID {
		a, b = b, a
	}
	return c.mk(OOr, Bool, "", 0, 0, 0, a, b)
}

func (c *Ctx) Implies(a, b *Term) *Term { return c.Or(c.Not(a), b) }

func (c *Ctx) Ite(cond, a, b *Term) *Term {
	if cond.IsConst() {
		if cond.Val == 1 {
			return a
		}
		return b
	}
	if a == b {
		return a
	}
	if a.S != b.S {
		panic(fmt.Sprintf("smt: ite sorts differ %v %v", a.S, b.S))
	}
	if a.S.K == SBool {
		if a.IsConst() && b.IsConst() {
			if a.Val == 1 {
				return cond
			}
			return c.Not(cond)
		}
		if a.IsConst() {
			if a.Val == 1 {
				return c.Or(cond, b)
			}
			return c.And(c.Not(cond), b)
		}
		if b.IsConst() {
			if b.Val == 1 {
				return c.Or(c.Not(cond), a)
			}
			return c.And(cond, a)
		}
	}
	return c.mk(OIte, a.S, "", 0, 0, 0, cond, a, b)
}

func (c *Ctx) Eq(a, b *Term) *Term {
	if a.S != b.S {
		panic(fmt.Sprintf("smt: eq sorts differ %v %v", a.S, b.S))
	}
	if a == b {
		return c.True
	}
	if a.IsConst() && b.IsConst() {
		if a.S.K == SFP {
			// structural: NaN == NaN (any payload), -0 != +0
			return c.BoolConst(fpStructEq(a.S.W, a.Val, b.Val))
		}
		return c.BoolConst(a.Val == b.Val)
	}
	if a.S.K == SBool {
		if a.IsConst() {
			if a.Val == 1 {
				return b
			}
			return c.Not(b)
		}
		if b.IsConst() {
			if b.Val == 1 {
				return a
			}
			return c.Not(a)
		}
	}
	// eq(ite(c,k1,k2), k) with constants: simplify
	if b.IsConst() && a.Op == OIte && a.Args[1].IsConst() && a.Args[2].IsConst() && a.S.K == SBV {
		e1 := a.Args[1].Val == b.Val
		e2 := a.Args[2].Val == b.Val
		switch {
		case e1 && e2:
			return c.True
		case e1:
			return a.Args[0]
		case e2:
			return c.Not(a.Args[0])
		default:
			return c.False
		}
	}
	if a.ID > b.ID {
		a, b = b, a
	}
	return c.mk(OEq, Bool, "", 0, 0, 0, a, b)
}

func fpStructEq(w int, x, y uint64) bool {
	if w == 64 {
		fx, fy := math.Float64frombits(x), math.Float64frombits(y)
		if fx != fx || fy != fy {
			return fx != fx && fy != fy
		}
		return x == y
	}
	fx, fy := math.Float32frombits(uint32(x)), math.Float32frombits(uint32(y))
	if fx != fx || fy != fy {
		return fx != fx && fy != fy
	}
	return uint32(x) == uint32(y)
}

// ---- bit-vectors ----

func (c *Ctx) BvBin(op Op, a, b *Term) *Term {
	if a.S != b.S || a.S.K != SBV {
		panic(fmt.Sprintf("smt: bv op %d sorts %v %v", op, a.S, b.S))
	}
	w := a.S.W
	if a.IsConst() && b.IsConst() {
		if v, ok := evalBvBin(op, w, a.Val, b.Val); ok {
			return c.BVConst(w, v)
		}
	}
	// light identities
	switch op {
	case OBvAdd, OBvOr, OBvXor:
		if a.IsConst() && a.Val == 0 {
			return b
		}
		if b.IsConst() && b.Val == 0 {
			return a
		}
	case OBvSub, OBvShl, OBvLshr, OBvAshr:
		if b.IsConst() && b.Val == 0 {
			return a
		}
	case OBvAnd:
		if a.IsConst() && a.Val == 0 || b.IsConst() && b.Val == 0 {
			return c.BVConst(w, 0)
		}
		if a.IsConst() && a.Val == mask(w) {
			return b
		}
		if b.IsConst() && b.Val == mask(w) {
			return a
		}
	case OBvMul:
		if a.IsConst() && a.Val == 1 {
			return b
		}
		if b.IsConst() && b.Val == 1 {
			return a
		}
		if a.IsConst() && a.Val == 0 || b.IsConst() && b.Val == 0 {
			return c.BVConst(w, 0)
		}
	}
	return c.mk(op, a.S, "", 0, 0, 0, a, b)
}

func evalBvBin(op Op, w int, x, y uint64) (uint64, bool) {
	m := mask(w)
	switch op {
	case OBvAdd:
		return (x + y) & m, true
	case OBvSub:
		return (x - y) & m, true
	case OBvMul:
		return (x * y) & m, true
	case OBvUdiv:
		if y == 0 {
			return m, true
		}
		return x / y, true
	case OBvUrem:
		if y == 0 {
			return x, true
		}
		return x % y, true
	case OBvSdiv:
		sx, sy := sext(x, w), sext(y, w)
		if sy == 0 {
			if sx < 0 {
				return 1, true
			}
			return m, true
		}
		if sy == -1 {
			return uint64(-sx) & m, true
		}
		return uint64(sx/sy) & m, true
	case OBvSrem:
		sx, sy := sext(x, w), sext(y, w)
		if sy == 0 {
			return x, true
		}
		if sy == -1 {
			return 0, true
		}
		return uint64(sx%sy) & m, true
	case OBvAnd:
		return x & y, true
	case OBvOr:
		return x | y, true
	case OBvXor:
		return x ^ y, true
	case OBvShl:
		if y >= uint64(w) {
			return 0, true
		}
		return (x << y) & m, true
	case OBvLshr:
		if y >= uint64(w) {
			return 0, true
		}
		return x >> y, true
	case OBvAshr:
		sx := sext(x, w)
		if y >= uint64(w) {
			y = uint64(w - 1)
		}
		return uint64(sx>>y) & m, true
	}
	return 0, false
}

func (c *Ctx) BvCmp(op Op, a, b *Term) *Term {
	if a.S != b.S || a.S.K != SBV {
		panic(fmt.Sprintf("smt: bv cmp sorts %v %v", a.S, b.S))
	}
	if a.IsConst() && b.IsConst() {
		return c.BoolConst(evalBvCmp(op, a.S.W, a.Val, b.Val))
	}
	if a == b {
		return c.BoolConst(op == OBvUle || op == OBvSle)
	}
	return c.mk(op, Bool, "", 0, 0, 0, a, b)
}

func evalBvCmp(op Op, w int, x, y uint64) bool {
	switch op {
	case OBvUlt:
		return x < y
	case OBvUle:
		return x <= y
	case OBvSlt:
		return sext(x, w) < sext(y, w)
	case OBvSle:
		return sext(x, w) <= sext(y, w)
	}
	panic("evalBvCmp")
}

func (c *Ctx) BvNot(a *Term) *Term {
	if a.IsConst() {
		return c.BVConst(a.S.W, ^a.Val)
	}
	return c.mk(OBvNot, a.S, "", 0, 0, 0, a)
}

func (c *Ctx) BvNeg(a *Term) *Term {
	if a.IsConst() {
		return c.BVConst(a.S.W, -a.Val)
	}
	return c.mk(OBvNeg, a.S, "", 0, 0, 0, a)
}

func (c *Ctx) Extract(a *Term, hi, lo int) *Term {
	if hi == a.S.W-1 && lo == 0 {
		return a
	}
	if a.IsConst() {
		return c.BVConst(hi-lo+1, a.Val>>uint(lo))
	}
	if (a.Op == OZext || a.Op == OSext) && lo == 0 && hi < a.Args[0].S.W {
		return c.Extract(a.Args[0], hi, 0)
	}
	return c.mk(OExtract, BV(hi-lo+1), "", hi, lo, 0, a)
}

func (c *Ctx) Zext(a *Term, w int) *Term {
	if w == a.S.W {
		return a
	}
	if w < a.S.W {
		return c.Extract(a, w-1, 0)
	}
	if a.IsConst() {
		return c.BVConst(w, a.Val)
	}
	return c.mk(OZext, BV(w), "", 0, 0, 0, a)
}

func (c *Ctx) Sext(a *Term, w int) *Term {
	if w == a.S.W {
		return a
	}
	if w < a.S.W {
		return c.Extract(a, w-1, 0)
	}
	if a.IsConst() {
		return c.BVConst(w, uint64(sext(a.Val, a.S.W)))
	}
	return c.mk(OSext, BV(w), "", 0, 0, 0, a)
}

func (c *Ctx) Concat(hi, lo *Term) *Term {
	w := hi.S.W + lo.S.W
	if hi.IsConst() && lo.IsConst() && w <= 64 {
		return c.BVConst(w, hi.Val<<uint(lo.S.W)|lo.Val)
	}
	return c.mk(OConcat, BV(w), "", 0, 0, 0, hi, lo)
}

// ---- floating point ----

func f64(v uint64) float64 { return math.Float64frombits(v) }
func f32(v uint64) float32 { return math.Float32frombits(uint32(v)) }

func (c *Ctx) fpConst(w int, f float64) *Term {
	if w == 64 {
		return c.FPConst64(f)
	}
	return c.FPConst32(float32(f))
}

func fpVal(t *Term) float64 {
	if t.S.W == 64 {
		return f64(t.Val)
	}
	return float64(f32(t.Val))
}

func (c *Ctx) FpBin(op Op, a, b *Term) *Term {
	if a.S != b.S || a.S.K != SFP {
		panic("smt: fp op sorts")
	}
	if a.IsConst() && b.IsConst() {
		x, y := fpVal(a), fpVal(b)
		var r float64
		if a.S.W == 32 {
			x32, y32 := f32(a.Val), f32(b.Val)
			var r32 float32
			switch op {
			case OFpAdd:
				r32 = x32 + y32
			case OFpSub:
				r32 = x32 - y32
			case OFpMul:
				r32 = x32 * y32
			case OFpDiv:
				r32 = x32 / y32
			}
			return c.FPConst32(r32)
		}
		switch op {
		case OFpAdd:
			r = x + y
		case OFpSub:
			r = x - y
		case OFpMul:
			r = x * y
		case OFpDiv:
			r = x / y
		}
		return c.FPConst64(r)
	}
	return c.mk(op, a.S, "", 0, 0, 0, a, b)
}

func (c *Ctx) FpCmp(op Op, a, b *Term) *Term {
	if a.S != b.S || a.S.K != SFP {
		panic("smt: fp cmp sorts")
	}
	if a.IsConst() && b.IsConst() {
		x, y := fpVal(a), fpVal(b)
		switch op {
		case OFpLt:
			return c.BoolConst(x < y)
		case OFpLe:
			return c.BoolConst(x <= y)
		case OFpEq:
			return c.BoolConst(x == y)
		}
	}
	return c.mk(op, Bool, "", 0, 0, 0, a, b)
}

func (c *Ctx) FpUn(op Op, a *Term) *Term {
	if a.IsConst() {
		x := fpVal(a)
		switch op {
		case OFpNeg:
			return c.fpConst(a.S.W, -x)
		case OFpAbs:
			return c.fpConst(a.S.W, math.Abs(x))
		}
	}
	return c.mk(op, a.S, "", 0, 0, 0, a)
}

func (c *Ctx) FpPred(op Op, a *Term) *Term {
	if a.IsConst() {
		x := fpVal(a)
		switch op {
		case OFpIsNaN:
			return c.BoolConst(x != x)
		case OFpIsInf:
			return c.BoolConst(math.IsInf(x, 0))
		case OFpIsZero:
			return c.BoolConst(x == 0)
		case OFpIsNeg:
			return c.BoolConst(x == x && math.Signbit(x))
		}
	}
	return c.mk(op, Bool, "", 0, 0, 0, a)
}

func roundMode(mode int, x float64) float64 {
	switch mode {
	case RNE:
		return math.RoundToEven(x)
	case RTP:
		return math.Ceil(x)
	case RTN:
		return math.Floor(x)
	case RTZ:
		return math.Trunc(x)
	case RNA:
		return math.Round(x)
	}
	panic("roundMode")
}

func (c *Ctx) FpRound(mode int, a *Term) *Term {
	if a.IsConst() {
		return c.fpConst(a.S.W, roundMode(mode, fpVal(a)))
	}
	return c.mk(OFpRound, a.S, "", mode, 0, 0, a)
}

// FpFromBV converts an integer bit-vector to float (RNE).
func (c *Ctx) FpFromBV(a *Term, signed bool, w int) *Term {
	if a.IsConst() {
		var f float64
		if signed {
			f = float64(sext(a.Val, a.S.W))
		} else {
			f = float64(a.Val)
		}
		if w == 32 {
			if signed {
				return c.FPConst32(float32(sext(a.Val, a.S.W)))
			}
			return c.FPConst32(float32(a.Val))
		}
		return c.FPConst64(f)
	}
	op := OFpFromUBV
	if signed {
		op = OFpFromSBV
	}
	return c.mk(op, FP(w), "", 0, 0, 0, a)
}

func (c *Ctx) FpFromFP(a *Term, w int) *Term {
	if a.S.W == w {
		return a
	}
	if a.IsConst() {
		return c.fpConst(w, fpVal(a))
	}
	return c.mk(OFpFromFP, FP(w), "", 0, 0, 0, a)
}

// FpToBV is the raw SMT conversion (RTZ); unspecified when out of range, callers guard.
func (c *Ctx) FpToBV(a *Term, signed bool, w int) *Term {
	if a.IsConst() {
		x := fpVal(a)
		if v, ok := fpToIntConst(x, signed, w); ok {
			return c.BVConst(w, v)
		}
	}
	op := OFpToUBV
	if signed {
		op = OFpToSBV
	}
	return c.mk(op, BV(w), "", 0, 0, 0, a)
}

func fpToIntConst(x float64, signed bool, w int) (uint64, bool) {
	if x != x || math.IsInf(x, 0) {
		return 0, false
	}
	t := math.Trunc(x)
	if signed {
		lim := math.Ldexp(1, w-1)
		if t < -lim || t >= lim {
			return 0, false
		}
		return uint64(int64(t)), true
	}
	lim := math.Ldexp(1, w)
	if t < 0 || t >= lim {
		return 0, false
	}
	return uint64(t), true
}

func (c *Ctx) FpOfBits(a *Term) *Term {
	if a.IsConst() {
		return c.mk(OConst, FP(a.S.W), "", 0, 0, a.Val)
	}
	return c.mk(OFpOfBits, FP(a.S.W), "", 0, 0, 0, a)
}

// ---- UF and tables ----

func (c *Ctx) UF(name string, ret Sort, args ...*Term) *Term {
	if _, ok := c.UFs[name]; !ok {
		sig := ufSig{Ret: ret}
		for _, a := range args {
			sig.Args = append(sig.Args, a.S)
		}
		c.UFs[name] = sig
	}
	return c.mk(OUF, ret, name, 0, 0, 0, args...)
}

// Select reads a constant table at a symbolic index.
func (c *Ctx) Select(tab *Table, idx *Term) *Term {
	if idx.IsConst() {
		return c.constOf(tab.Elt, tab.Vals[idx.Val])
	}
	if _, ok := c.Tables[tab.Name]; !ok {
		c.Tables[tab.Name] = tab
	}
	return c.mk(OSelect, tab.Elt, tab.Name, 0, 0, 0, idx)
}

func (c *Ctx) constOf(s Sort, v uint64) *Term {
	switch s.K {
	case SBool:
		return c.BoolConst(v != 0)
	case SBV:
		return c.BVConst(s.W, v)
	}
	return c.mk(OConst, s, "", 0, 0, v)
}

func (c *Ctx) Const(s Sort, v uint64) *Term { return c.constOf(s, v) }

var _ = bits.Len
