package interp

// Constraint independence: a query about condition c only needs the conjuncts of the
// path condition that (transitively) share variables with c; the rest is satisfiable
// on its own (the path condition is feasible by invariant) and keeps its current
// model.  Slices over at most enumBits bits of variables are decided by exhaustive
// evaluation instead of a solver call.

import (
	"sort"

	"gosx/smt"
)

const enumBits = 8

type suppInfo struct {
	vars  []int // sorted variable indices
	hasUF bool
}

func (i *interpreter) support(t *smt.Term) *suppInfo {
	if s, ok := i.supp[t.ID]; ok {
		return s
	}
	s := &suppInfo{}
	switch t.Op {
	case smt.OVar:
		idx, ok := i.varIdx[t.Name]
		if !ok {
			idx = len(i.varTerms)
			i.varIdx[t.Name] = idx
			i.varTerms = append(i.varTerms, t)
		}
		s.vars = []int{idx}
	case smt.OConst:
	default:
		if t.Op == smt.OUF {
			s.hasUF = true
		}
		if len(t.Args) == 1 {
			a := i.support(t.Args[0])
			s.vars, s.hasUF = a.vars, s.hasUF || a.hasUF
		} else {
			seen := map[int]bool{}
			for _, a := range t.Args {
				as := i.support(a)
				s.hasUF = s.hasUF || as.hasUF
				for _, v := range as.vars {
					if !seen[v] {
						seen[v] = true
						s.vars = append(s.vars, v)
					}
				}
			}
			sort.Ints(s.vars)
		}
	}
	i.supp[t.ID] = s
	return s
}

// sliceFor returns the conjuncts of the path condition relevant to the given terms,
// the variables involved, and whether any uninterpreted function occurs.
func (i *interpreter) sliceFor(extra []*smt.Term) (conj []*smt.Term, vars []int, hasUF bool) {
	p := i.path
	S := map[int]bool{}
	for _, t := range extra {
		s := i.support(t)
		hasUF = hasUF || s.hasUF
		for _, v := range s.vars {
			S[v] = true
		}
	}
	// supports of pc conjuncts (cached per path)
	for len(p.pcSupp) < len(p.pc) {
		p.pcSupp = append(p.pcSupp, i.support(p.pc[len(p.pcSupp)]))
	}
	in := make([]bool, len(p.pc))
	for changed := true; changed; {
		changed = false
		for j, s := range p.pcSupp {
			if in[j] {
				continue
			}
			hit := false
			for _, v := range s.vars {
				if S[v] {
					hit = true
					break
				}
			}
			if hit {
				in[j] = true
				changed = true
				hasUF = hasUF || s.hasUF
				for _, v := range s.vars {
					S[v] = true
				}
			}
		}
	}
	for j, ok := range in {
		if ok {
			conj = append(conj, p.pc[j])
		}
	}
	for v := range S {
		vars = append(vars, v)
	}
	sort.Ints(vars)
	return
}

// query decides pc ∧ extra.  On Sat the returned model is a model of the whole path
// condition and of extra.
func (i *interpreter) query(extra ...*smt.Term) (smt.Result, smt.Model) {
	p := i.path
	for _, t := range extra {
		if t.IsConst() && t.Val == 0 {
			return smt.Unsat, nil
		}
	}
	if p.model == nil || i.cfg.NoSlicing {
		return i.sess.Check(append(p.pc[:len(p.pc):len(p.pc)], extra...), p.vars)
	}
	conj, vars, hasUF := i.sliceFor(extra)
	bits := 0
	for _, v := range vars {
		bits += i.varTerms[v].S.W
	}
	all := append(conj, extra...)
	var res smt.Result
	var sub smt.Model
	if !hasUF && bits <= enumBits {
		i.Enumerated++
		res, sub = i.enumerate(all, vars, bits)
	} else {
		vt := make([]*smt.Term, len(vars))
		for k, v := range vars {
			vt[k] = i.varTerms[v]
		}
		res, sub = i.sess.Check(all, vt)
	}
	if res != smt.Sat {
		return res, nil
	}
	m := make(smt.Model, len(p.model)+len(sub))
	for k, v := range p.model {
		m[k] = v
	}
	for k, v := range sub {
		m[k] = v
	}
	return smt.Sat, m
}

// enumerate tries every assignment of the (few) variables.
func (i *interpreter) enumerate(conj []*smt.Term, vars []int, bits int) (smt.Result, smt.Model) {
	if i.fe == nil {
		i.fe = smt.NewFastEval(i.ctx)
	}
	fe := i.fe
	// start from the current model's values so that nearby assignments are tried first
	n := uint64(1) << uint(bits)
	for a := uint64(0); a < n; a++ {
		fe.Reset(i.path.model)
		rest := a
		for _, v := range vars {
			vt := i.varTerms[v]
			w := uint(vt.S.W)
			fe.Set(vt, rest&((1<<w)-1))
			rest >>= w
		}
		ok := true
		for _, c := range conj {
			if fe.Eval(c) != 1 {
				ok = false
				break
			}
		}
		if ok {
			m := smt.Model{}
			rest := a
			for _, v := range vars {
				vt := i.varTerms[v]
				w := uint(vt.S.W)
				m[vt.Name] = rest & ((1 << w) - 1)
				rest >>= w
			}
			return smt.Sat, m
		}
	}
	return smt.Unsat, nil
}

// fewValues reports whether t can take at most max distinct values on this path; it
// only answers (ok=true) when the question can be settled by cheap enumeration.
func (i *interpreter) fewValues(t *smt.Term, max int) bool {
	p := i.path
	if p.model == nil || t.IsConst() {
		return false
	}
	ts := i.support(t)
	if ts.hasUF || len(ts.vars) == 0 {
		return false
	}
	// slice for t's variables
	conj, vars, hasUF := i.sliceForVars(ts.vars)
	if hasUF {
		return false
	}
	bits := 0
	for _, v := range vars {
		bits += i.varTerms[v].S.W
	}
	if bits > enumBits {
		return false
	}
	if i.fe == nil {
		i.fe = smt.NewFastEval(i.ctx)
	}
	fe := i.fe
	seen := map[uint64]bool{}
	n := uint64(1) << uint(bits)
	for a := uint64(0); a < n; a++ {
		fe.Reset(p.model)
		rest := a
		for _, v := range vars {
			vt := i.varTerms[v]
			w := uint(vt.S.W)
			fe.Set(vt, rest&((1<<w)-1))
			rest >>= w
		}
		ok := true
		for _, c := range conj {
			if fe.Eval(c) != 1 {
				ok = false
				break
			}
		}
		if ok {
			seen[fe.Eval(t)] = true
			if len(seen) > max {
				return false
			}
		}
	}
	return len(seen) > 0
}

func (i *interpreter) sliceForVars(vs []int) (conj []*smt.Term, vars []int, hasUF bool) {
	p := i.path
	S := map[int]bool{}
	for _, v := range vs {
		S[v] = true
	}
	for len(p.pcSupp) < len(p.pc) {
		p.pcSupp = append(p.pcSupp, i.support(p.pc[len(p.pcSupp)]))
	}
	in := make([]bool, len(p.pc))
	for changed := true; changed; {
		changed = false
		for j, s := range p.pcSupp {
			if in[j] {
				continue
			}
			hit := false
			for _, v := range s.vars {
				if S[v] {
					hit = true
					break
				}
			}
			if hit {
				in[j] = true
				changed = true
				hasUF = hasUF || s.hasUF
				for _, v := range s.vars {
					S[v] = true
				}
			}
		}
	}
	for j, ok := range in {
		if ok {
			conj = append(conj, p.pc[j])
		}
	}
	for v := range S {
		vars = append(vars, v)
	}
	sort.Ints(vars)
	return
}

// fewValuesSolver: can t take at most MaxConcretise values?  Decided with up to two
// solver calls (is there a third... no: we only ask whether a second value exists for
// terms that are not cheaply enumerable; a term with two or more values is treated as
// 'many' unless fewValues said otherwise).
func (i *interpreter) fewValuesSolver(t *smt.Term) bool {
	p := i.path
	if p.model == nil || hasUF(t) {
		return false
	}
	v := i.evaluator().Eval(t)
	var other *smt.Term
	if t.S.K == smt.SBool {
		return true
	}
	other = i.ctx.Not(i.ctx.Eq(t, i.ctx.BVConst(t.S.W, v)))
	r, _ := i.query(other)
	return r == smt.Unsat
}
