package interp

// Cooperative goroutines and channels.  Every target goroutine is backed by a real Go
// goroutine, but exactly one of them runs at a time (a baton passed through per-goroutine
// wake channels), and control changes hands only at blocking channel operations, so
// executions are deterministic and the decision sequence of a path is reproducible.

import (
	"fmt"
	"go/token"
	"go/types"

	"golang.org/x/tools/go/ssa"
)

type gstate int

const (
	gRunnable gstate = iota
	gBlockedSend
	gBlockedRecv
	gDone
)

type goroutine struct {
	id      int
	wake    chan struct{}
	state   gstate
	started bool
	sendVal value
	recvVal value
	recvOk  bool
	desc    string
	depth   int
}

type schan struct {
	cap    int
	buf    []value
	closed bool
	sendq  []*goroutine
	recvq  []*goroutine
	elemT  types.Type
}

func (i *interpreter) spawn(pos token.Pos, fn value, args []value) {
	g := &goroutine{id: len(i.gs), wake: make(chan struct{}, 1), state: gRunnable}
	switch f := fn.(type) {
	case interface{ String() string }:
		g.desc = f.String()
	case *closure:
		g.desc = f.Fn.String()
	}
	i.gs = append(i.gs, g)
	i.wg.Add(1)
	go func() {
		defer i.wg.Done()
		<-g.wake
		if i.aborting {
			return
		}
		g.started = true
		i.depth = 0
		defer func() {
			r := recover()
			switch r := r.(type) {
			case nil:
				g.state = gDone
				i.yield(true)
			case abortPath:
			case pathEnd:
				i.done <- r
			case targetPanic:
				i.done <- pathEnd{kind: "panic", msg: "goroutine: " + i.panicText(r)}
			default:
				i.done <- pathEnd{kind: "engine-error", msg: fmt.Sprintf("%v @ %s", r, shortStack())}
			}
		}()
		call(i, nil, pos, fn, args)
	}()
}

// yield hands the baton to the next runnable goroutine; the caller has already
// recorded why it blocks (or that it is exiting).
func (i *interpreter) yield(exiting bool) {
	cur := i.cur
	var next *goroutine
	for _, g := range i.gs {
		if g != cur && g.state == gRunnable {
			next = g
			break
		}
	}
	if next == nil {
		if exiting {
			// nobody else can run; if main is blocked forever this is a deadlock of
			// the harness itself
			for _, g := range i.gs {
				if g.id == 0 && g.state != gDone {
					i.done <- pathEnd{kind: "deadlock", msg: "main goroutine blocked forever after goroutine exit"}
					return
				}
			}
			return
		}
		if cur.id == 0 {
			panic(pathEnd{kind: "deadlock", msg: "all goroutines are blocked: " + i.blockedSummary()})
		}
		// a non-main goroutine blocks and nobody can run: main must be blocked too
		panic(pathEnd{kind: "deadlock", msg: "all goroutines are blocked: " + i.blockedSummary()})
	}
	cur.depth = i.depth
	i.cur = next
	i.depth = next.depth
	next.wake <- struct{}{}
	if exiting {
		return
	}
	<-cur.wake
	if i.aborting {
		panic(abortPath{})
	}
	i.depth = cur.depth
}

func (i *interpreter) blockedSummary() string {
	s := ""
	for _, g := range i.gs {
		s += fmt.Sprintf("[g%d %s state=%d]", g.id, g.desc, g.state)
	}
	return s
}

// quiesce lets every other runnable goroutine run until all are blocked or done, and
// returns the number of goroutines (other than the caller) that are still alive.
func (i *interpreter) quiesce() int {
	cur := i.cur
	for {
		any := false
		for _, g := range i.gs {
			if g != cur && g.state == gRunnable {
				any = true
			}
		}
		if !any {
			break
		}
		// park ourselves as runnable and let the others go; we get the baton back
		// when they all block (lowest id first picks us again only if id is lowest),
		// so mark ourselves specially
		cur.state = gRunnable
		i.yieldTo()
	}
	n := 0
	for _, g := range i.gs {
		if g != cur && g.state != gDone {
			n++
		}
	}
	return n
}

// yieldTo runs one other runnable goroutine until it blocks or exits, then returns.
func (i *interpreter) yieldTo() {
	cur := i.cur
	var next *goroutine
	for _, g := range i.gs {
		if g != cur && g.state == gRunnable {
			next = g
			break
		}
	}
	if next == nil {
		return
	}
	cur.depth = i.depth
	i.cur = next
	i.depth = next.depth
	next.wake <- struct{}{}
	<-cur.wake
	if i.aborting {
		panic(abortPath{})
	}
	i.depth = cur.depth
}

func (i *interpreter) chanSend(ch *schan, v value) {
	if ch == nil {
		i.cur.state = gBlockedSend
		i.yield(false)
		panic(pathEnd{kind: "deadlock", msg: "send on nil channel"})
	}
	if ch.closed {
		i.throw("send on closed channel")
	}
	v = copyVal(v)
	if len(ch.recvq) > 0 {
		r := ch.recvq[0]
		ch.recvq = ch.recvq[1:]
		r.recvVal, r.recvOk = v, true
		r.state = gRunnable
		return
	}
	if len(ch.buf) < ch.cap {
		ch.buf = append(ch.buf, v)
		return
	}
	cur := i.cur
	cur.sendVal = v
	cur.state = gBlockedSend
	ch.sendq = append(ch.sendq, cur)
	i.yield(false)
	// woken by a receiver that took the value (state set to runnable), or by close
	if ch.closed && cur.sendVal != nil {
		i.throw("send on closed channel")
	}
}

func (i *interpreter) chanRecv(ch *schan) (value, bool) {
	if ch == nil {
		i.cur.state = gBlockedRecv
		i.yield(false)
		panic(pathEnd{kind: "deadlock", msg: "receive on nil channel"})
	}
	if len(ch.buf) > 0 {
		v := ch.buf[0]
		ch.buf = ch.buf[1:]
		if len(ch.sendq) > 0 {
			s := ch.sendq[0]
			ch.sendq = ch.sendq[1:]
			ch.buf = append(ch.buf, s.sendVal)
			s.sendVal = nil
			s.state = gRunnable
		}
		return v, true
	}
	if len(ch.sendq) > 0 {
		s := ch.sendq[0]
		ch.sendq = ch.sendq[1:]
		v := s.sendVal
		s.sendVal = nil
		s.state = gRunnable
		return v, true
	}
	if ch.closed {
		return nil, false
	}
	cur := i.cur
	cur.state = gBlockedRecv
	ch.recvq = append(ch.recvq, cur)
	i.yield(false)
	return cur.recvVal, cur.recvOk
}

func (i *interpreter) chanClose(ch *schan) {
	if ch == nil {
		i.throw("close of nil channel")
	}
	if ch.closed {
		i.throw("close of closed channel")
	}
	ch.closed = true
	for _, r := range ch.recvq {
		r.recvVal, r.recvOk = nil, false
		r.state = gRunnable
	}
	ch.recvq = nil
	for _, s := range ch.sendq {
		s.state = gRunnable // they will panic on wake
	}
	ch.sendq = nil
}

func (i *interpreter) otherRunnable() bool {
	for _, g := range i.gs {
		if g != i.cur && g.state == gRunnable {
			return true
		}
	}
	return false
}

// letOthersRun parks the current goroutine as runnable until condition holds; a
// condition that cannot become true because nobody else can run is a deadlock.
func (i *interpreter) waitUntil(cond func() bool, what string) {
	for !cond() {
		if !i.otherRunnable() {
			panic(pathEnd{kind: "deadlock", msg: what + ": all goroutines are blocked: " + i.blockedSummary()})
		}
		i.cur.state = gRunnable
		i.yieldTo()
	}
}

func chanSendReady(ch *schan) bool {
	return ch != nil && (ch.closed || len(ch.recvq) > 0 || len(ch.buf) < ch.cap)
}

func chanRecvReady(ch *schan) bool {
	return ch != nil && (len(ch.buf) > 0 || len(ch.sendq) > 0 || ch.closed)
}

// selectStmt: the first ready case in source order is taken (Go picks uniformly among
// the ready ones: one of the admissible schedules); with no ready case a non-blocking
// select takes its default, a blocking one lets the other goroutines run and retries.
func (i *interpreter) selectStmt(fr *frame, instr *ssa.Select) value {
	chans := make([]*schan, len(instr.States))
	for k, st := range instr.States {
		chans[k], _ = fr.get(st.Chan).(*schan)
	}
	ready := func() int {
		for k, st := range instr.States {
			if st.Dir == types.SendOnly && chanSendReady(chans[k]) {
				return k
			}
			if st.Dir == types.RecvOnly && chanRecvReady(chans[k]) {
				return k
			}
		}
		return -1
	}
	k := ready()
	if k < 0 && instr.Blocking {
		i.waitUntil(func() bool { return ready() >= 0 }, "select")
		k = ready()
	}
	res := tuple{k, false}
	var recvVals []value
	for j, st := range instr.States {
		if st.Dir != types.RecvOnly {
			continue
		}
		elem := st.Chan.Type().Underlying().(*types.Chan).Elem()
		v := zero(elem)
		if j == k {
			rv, ok := i.chanRecv(chans[j])
			if ok {
				v = rv
			}
			res[1] = ok
		}
		recvVals = append(recvVals, v)
	}
	if k >= 0 && instr.States[k].Dir == types.SendOnly {
		i.chanSend(chans[k], fr.get(instr.States[k].Send))
	}
	return append(res, recvVals...)
}
