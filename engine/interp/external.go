package interp

// Intrinsics: functions that are not interpreted from their source because they are
// assembly / unsafe / reflection based, or because they belong to the harness runtime
// (vrt).  Every intrinsic that is hit is reported in the evidence ("stubs_hit").

import (
	"fmt"
	"go/types"
	"math"
	"reflect"
	"sort"
	"strconv"
	"strings"
	"unsafe"

	"golang.org/x/tools/go/ssa"

	"gosx/smt"
)

type externalFn func(fr *frame, args []value) value

// Key strings are from Function.String().
var externals = make(map[string]externalFn)

const vrtPkg = "github.com/sdcio/yang-parser/vrt."

func unsupported(msg string) externalFn {
	return func(fr *frame, args []value) value {
		panic(pathEnd{kind: "unsupported", msg: msg})
	}
}

func init() {
	for k, v := range map[string]externalFn{
		// ---- harness runtime
		vrtPkg + "Symbolic":       func(fr *frame, a []value) value { return true },
		vrtPkg + "Param": func(fr *frame, a []value) value {
			if v, ok := fr.i.cfg.Params[a[0].(string)]; ok {
				return v
			}
			return a[1]
		},
		vrtPkg + "Byte":           func(fr *frame, a []value) value { return fr.i.input(a[0].(string), types.Uint8) },
		vrtPkg + "Bool":           func(fr *frame, a []value) value { return fr.i.input(a[0].(string), types.Bool) },
		vrtPkg + "Int64":          func(fr *frame, a []value) value { return fr.i.input(a[0].(string), types.Int64) },
		vrtPkg + "Int32":          func(fr *frame, a []value) value { return fr.i.input(a[0].(string), types.Int32) },
		vrtPkg + "Int":            func(fr *frame, a []value) value { return fr.i.input(a[0].(string), types.Int) },
		vrtPkg + "Uint64":         func(fr *frame, a []value) value { return fr.i.input(a[0].(string), types.Uint64) },
		vrtPkg + "Uint32":         func(fr *frame, a []value) value { return fr.i.input(a[0].(string), types.Uint32) },
		vrtPkg + "Float64":        extVrtFloat64,
		vrtPkg + "Bytes":          extVrtBytes,
		vrtPkg + "String":         func(fr *frame, a []value) value { return mkstr(extVrtBytes(fr, a).([]value)) },
		vrtPkg + "Choice":         extVrtChoice,
		vrtPkg + "Assume":         func(fr *frame, a []value) value { fr.i.assume(fr.i.term(a[0])); return nil },
		vrtPkg + "Assert":         extVrtAssert,
		vrtPkg + "Reach":          extVrtReach,
		vrtPkg + "Observe":        extVrtObserve,
		vrtPkg + "Class":          extVrtClass,
		vrtPkg + "And":            func(fr *frame, a []value) value { return fr.i.and(a[0], a[1]) },
		vrtPkg + "Or":             func(fr *frame, a []value) value { return fr.i.or(a[0], a[1]) },
		vrtPkg + "Not":            func(fr *frame, a []value) value { return fr.i.not(a[0]) },
		vrtPkg + "Implies":        func(fr *frame, a []value) value { return fr.i.or(fr.i.not(a[0]), a[1]) },
		vrtPkg + "Iff":            func(fr *frame, a []value) value { return fr.i.equals(nil, a[0], a[1]) },
		vrtPkg + "StrEq":          func(fr *frame, a []value) value { return fr.i.equals(nil, a[0], a[1]) },
		vrtPkg + "IteInt":         extVrtIte,
		vrtPkg + "IteByte":        extVrtIte,
		vrtPkg + "IteInt64":       extVrtIte,
		vrtPkg + "IteFloat64":     extVrtIte,
		vrtPkg + "IteBool":        extVrtIte,
		vrtPkg + "MapOrder":       func(fr *frame, a []value) value { fr.i.mapOrder = int(asInt64(a[0])) % numOrders; return nil },
		vrtPkg + "LiveGoroutines": func(fr *frame, a []value) value { return fr.i.quiesce() },
		vrtPkg + "Freeze":         extVrtFreeze,
		vrtPkg + "Thaw":           func(fr *frame, a []value) value { fr.i.frozen, fr.i.frozenMaps = nil, nil; return nil },
		vrtPkg + "FrozenWrites":   extVrtFrozenWrites,
		vrtPkg + "LocksetViolations": extVrtLocksetViolations,
		vrtPkg + "Concretize":     func(fr *frame, a []value) value { return fr.i.concretise(a[0], "vrt.Concretize") },
		vrtPkg + "ConcretizeByte": func(fr *frame, a []value) value { return fr.i.concretise(a[0], "vrt.ConcretizeByte") },
		vrtPkg + "Fmod":           extFmod,
		vrtPkg + "IsNaN":          extIsNaN,
		vrtPkg + "FloatEq":        func(fr *frame, a []value) value { return fr.i.floatStructEq(a[0], a[1]) },
		vrtPkg + "NoPanic":        extVrtNoPanic,

		// ---- runtime / sync / atomic
		"runtime.GOMAXPROCS":              func(fr *frame, a []value) value { return 1 },
		"runtime.Gosched":                 func(fr *frame, a []value) value { fr.i.yieldTo(); return nil },
		"runtime.GC":                      func(fr *frame, a []value) value { return nil },
		"runtime.KeepAlive":               func(fr *frame, a []value) value { return nil },
		"runtime.SetFinalizer":            func(fr *frame, a []value) value { return nil },
		"runtime.NumGoroutine":            func(fr *frame, a []value) value { return len(fr.i.gs) },
		"runtime.Goexit":                  unsupported("runtime.Goexit"),
		"internal/abi.NoEscape":           func(fr *frame, a []value) value { return a[0] },
		"internal/abi.Escape":             func(fr *frame, a []value) value { return a[0] },
		"(*sync.Mutex).Lock":              extMutexLock,
		"(*sync.Mutex).Unlock":            extMutexUnlock,
		"(*sync.Mutex).TryLock":           func(fr *frame, a []value) value { extMutexLock(fr, a); return true },
		"(*sync.RWMutex).Lock":            extMutexLock,
		"(*sync.RWMutex).Unlock":          extMutexUnlock,
		"(*sync.RWMutex).RLock":           extRLock,
		"(*sync.RWMutex).RUnlock":         extRUnlock,
		"(*sync.Once).Do":                 extOnceDo,
		"(*sync.Once).doSlow":             unsupported("sync.Once.doSlow"),
		"(*sync.WaitGroup).Add":           extWaitGroupAdd,
		"(*sync.WaitGroup).Wait":          extWaitGroupWait,
		"(*sync.Pool).Get":                extPoolGet,
		"(*sync/atomic.Value).Store":      extAtomicValueStore,
		"(*sync/atomic.Value).Load":       func(fr *frame, a []value) value { return (*a[0].(*value)).(structure)[0] },
		"(*sync/atomic.Value).Swap":       func(fr *frame, a []value) value { old := (*a[0].(*value)).(structure)[0]; extAtomicValueStore(fr, a); return old },
		"(*sync/atomic.Value).CompareAndSwap": unsupported("atomic.Value.CompareAndSwap"),
		"(*sync.Map).Load":                unsupported("sync.Map"),
		"(*sync.Map).Store":               unsupported("sync.Map"),
		"(*sync.Map).LoadOrStore":         unsupported("sync.Map"),
		"(*sync.Map).Delete":              unsupported("sync.Map"),
		"(*sync.Map).Range":               unsupported("sync.Map"),
		"(*sync.Cond).Wait":               unsupported("sync.Cond"),
		"(*sync.Pool).Put":                extPoolPut,
		"sync/atomic.LoadInt32":           extAtomicLoad,
		"sync/atomic.LoadInt64":           extAtomicLoad,
		"sync/atomic.LoadUint32":          extAtomicLoad,
		"sync/atomic.LoadUint64":          extAtomicLoad,
		"sync/atomic.LoadUintptr":         extAtomicLoad,
		"sync/atomic.StoreInt32":          extAtomicStore,
		"sync/atomic.StoreInt64":          extAtomicStore,
		"sync/atomic.StoreUint32":         extAtomicStore,
		"sync/atomic.StoreUint64":         extAtomicStore,
		"sync/atomic.StoreUintptr":        extAtomicStore,
		"sync/atomic.AddInt32":            extAtomicAdd,
		"sync/atomic.AddInt64":            extAtomicAdd,
		"sync/atomic.AddUint32":           extAtomicAdd,
		"sync/atomic.AddUint64":           extAtomicAdd,
		"sync/atomic.CompareAndSwapInt32": extAtomicCAS,
		"sync/atomic.CompareAndSwapInt64": extAtomicCAS,
		"sync/atomic.CompareAndSwapUint32": extAtomicCAS,
		"sync/atomic.CompareAndSwapUint64": extAtomicCAS,

		// ---- bytes / strings primitives (assembly in the real build)
		"internal/bytealg.IndexByte":       extIndexByte,
		"internal/bytealg.IndexByteString": extIndexByte,
		"internal/bytealg.Count":           extCountByte,
		"internal/bytealg.CountString":     extCountByte,
		"internal/bytealg.Equal":           extBytesEqual,
		"internal/bytealg.Compare":         extCompare,
		"internal/bytealg.CompareString":   extCompare,
		"internal/bytealg.Index":           extIndex,
		"internal/bytealg.IndexString":     extIndex,
		"internal/bytealg.MakeNoZero":      extMakeNoZero,
		"internal/stringslite.Index":       extIndex,
		"internal/stringslite.IndexByte":   extIndexByte,
		"strings.Index":                    extIndex,
		"strings.IndexByte":                extIndexByte,
		"strings.Compare":                  extCompare,
		"bytes.Index":                      extIndex,
		"bytes.IndexByte":                  extIndexByte,
		"bytes.Equal":                      extBytesEqual,
		"bytes.Compare":                    extCompare,
		"strings.Clone":                    func(fr *frame, a []value) value { return a[0] },
		"internal/stringslite.Clone":       func(fr *frame, a []value) value { return a[0] },
		"unique.Make[string]":              unsupported("unique.Make"),

		// ---- math
		"math.Float64bits":     extFloat64bits,
		"math.Float64frombits": extFloat64frombits,
		"math.Float32bits":     extFloat32bits,
		"math.Float32frombits": extFloat32frombits,
		"math.archFloor":       func(fr *frame, a []value) value { return fr.i.fpRound(a[0], smt.RTN, math.Floor) },
		"math.archCeil":        func(fr *frame, a []value) value { return fr.i.fpRound(a[0], smt.RTP, math.Ceil) },
		"math.archTrunc":       func(fr *frame, a []value) value { return fr.i.fpRound(a[0], smt.RTZ, math.Trunc) },
		"math.Floor":           func(fr *frame, a []value) value { return fr.i.fpRound(a[0], smt.RTN, math.Floor) },
		"math.Ceil":            func(fr *frame, a []value) value { return fr.i.fpRound(a[0], smt.RTP, math.Ceil) },
		"math.Trunc":           func(fr *frame, a []value) value { return fr.i.fpRound(a[0], smt.RTZ, math.Trunc) },
		"math.RoundToEven":     func(fr *frame, a []value) value { return fr.i.fpRound(a[0], smt.RNE, math.RoundToEven) },
		"math.Round":           func(fr *frame, a []value) value { return fr.i.fpRound(a[0], smt.RNA, math.Round) },
		"math.Abs":             extAbs,
		"math.IsNaN":           extIsNaN,
		"math.IsInf":           extIsInf,
		"math.Signbit":         extSignbit,
		"math.Copysign":        extCopysign,
		"math.Mod":             extFmod,
		"math.Sqrt":            extConcreteF1(math.Sqrt, "math.Sqrt"),
		"math.archSqrt":        extConcreteF1(math.Sqrt, "math.Sqrt"),
		"math.Log":             extConcreteF1(math.Log, "math.Log"),
		"math.archLog":         extConcreteF1(math.Log, "math.Log"),
		"math.Exp":             extConcreteF1(math.Exp, "math.Exp"),
		"math.archExp":         extConcreteF1(math.Exp, "math.Exp"),
		"math.Log2":            extConcreteF1(math.Log2, "math.Log2"),
		"math.Log10":           extConcreteF1(math.Log10, "math.Log10"),
		"math.Pow":             extPow,
		"math.Frexp":           extFrexp,
		"math.Ldexp":           extLdexp,
		"math.Modf":            extModf,
		"math/bits.Mul64":      nil, // pure Go body is fine
		"math/bits.Add64":      nil,

		// ---- strconv float conversions (opaque for symbolic operands)
		"strconv.ParseFloat":  extParseFloat,
		"strconv.FormatFloat": extFormatFloat,

		// ---- environment
		"os.Getenv":      func(fr *frame, a []value) value { return "" },
		"os.LookupEnv":   func(fr *frame, a []value) value { return tuple{"", false} },
		"os.Exit":        func(fr *frame, a []value) value { panic(pathEnd{kind: "panic", msg: "os.Exit called"}) },
		"time.Now":       extTimeNow,
		"time.Since":     func(fr *frame, a []value) value { return int64(0) },
		"time.Sleep":     func(fr *frame, a []value) value { return nil },
		"time.now":       func(fr *frame, a []value) value { return tuple{int64(0), int32(0), int64(0)} },
		"time.runtimeNano": func(fr *frame, a []value) value { return int64(0) },
	} {
		if v != nil {
			externals[k] = v
		}
	}
	registerFmt()
	registerEnv()
}

// ---------------------------------------------------------------- vrt

func (i *interpreter) input(name string, k types.BasicKind) value {
	if k == types.Float64 {
		b := i.newVar(name, smt.BV(64))
		return sym{i.ctx.FpOfBits(b), types.Float64}
	}
	return sym{i.newVar(name, sortOfKind(k)), k}
}

func extVrtFloat64(fr *frame, a []value) value { return fr.i.input(a[0].(string), types.Float64) }

func extVrtBytes(fr *frame, a []value) value {
	name := a[0].(string)
	n := int(fr.i.intArg(a[1], "vrt.Bytes length"))
	r := make([]value, n)
	for k := range r {
		r[k] = fr.i.input(fmt.Sprintf("%s[%d]", name, k), types.Uint8)
	}
	return r
}

func extVrtChoice(fr *frame, a []value) value {
	i := fr.i
	name := a[0].(string)
	n := asInt64(a[1])
	if n <= 0 {
		panic(pathEnd{kind: "assume-false"})
	}
	if n == 1 {
		return 0
	}
	v := i.newVar(name, smt.BV(64))
	i.assume(i.ctx.BvCmp(smt.OBvUlt, v, i.ctx.BVConst(64, uint64(n))))
	old := i.cfg.MaxConcretise
	_ = old
	return int(i.concretiseTermMax(v, "choice "+name, int(n)))
}

func (i *interpreter) concretiseTermMax(t *smt.Term, what string, max int) uint64 {
	saved := i.cfg.MaxConcretise
	if max > saved {
		// cfg is shared read-only; use a per-call override
		i.maxConcOverride = max
		defer func() { i.maxConcOverride = 0 }()
	}
	return i.concretiseTerm(t, what)
}

func extVrtAssert(fr *frame, a []value) value {
	site := ""
	if fr.caller != nil {
		site = fr.caller.fn.Name()
	}
	fr.i.assert(a[0], a[1].(string), site)
	return nil
}

func extVrtReach(fr *frame, a []value) value {
	fr.i.path.res.Reached = append(fr.i.path.res.Reached, a[0].(string))
	return nil
}

func extVrtObserve(fr *frame, a []value) value {
	var vals []value
	for _, x := range a[1].([]value) {
		vals = append(vals, x.(iface).v)
	}
	fr.i.path.res.Observed = append(fr.i.path.res.Observed, obsRec{key: a[0].(string), vals: vals})
	return nil
}

func extVrtClass(fr *frame, a []value) value {
	p := fr.i.path
	name := a[0].(string)
	if _, ok := p.classes[name]; !ok {
		p.classOrd = append(p.classOrd, name)
	}
	p.classes[name] = fr.i.term(a[1])
	return nil
}

func extVrtIte(fr *frame, a []value) value {
	i := fr.i
	if b, ok := a[0].(bool); ok {
		if b {
			return a[1]
		}
		return a[2]
	}
	v, ok := i.iteValue(i.term(a[0]), a[1], a[2])
	if !ok {
		panic(pathEnd{kind: "unsupported", msg: "vrt.Ite on non-scalar"})
	}
	return v
}

// extVrtNoPanic calls f and reports whether it returned normally; a target panic is
// swallowed and its text returned (used by totality harnesses).
func extVrtNoPanic(fr *frame, a []value) (res value) {
	i := fr.i
	defer func() {
		r := recover()
		if r == nil {
			return
		}
		if tp, ok := r.(targetPanic); ok {
			res = tuple{false, i.panicText(tp)}
			return
		}
		panic(r)
	}()
	call(i, fr, 0, a[0], nil)
	return tuple{true, ""}
}

// ---------------------------------------------------------------- freeze (C06)

func extVrtFreeze(fr *frame, a []value) value {
	i := fr.i
	i.frozen = map[*value]bool{}
	i.frozenMaps = map[*omap]bool{}
	seenSlices := map[*value]bool{}
	var walk func(v value)
	walk = func(v value) {
		switch v := v.(type) {
		case *value:
			if v == nil || i.frozen[v] {
				return
			}
			i.frozen[v] = true
			markCells(i, *v)
			walk(*v)
		case []value:
			if len(v) == 0 {
				return
			}
			if seenSlices[&v[0]] {
				return
			}
			seenSlices[&v[0]] = true
			for k := range v {
				i.frozen[&v[k]] = true
				markCells(i, v[k])
				walk(v[k])
			}
		case structure:
			for k := range v {
				walk(v[k])
			}
		case array:
			for k := range v {
				walk(v[k])
			}
		case iface:
			walk(v.v)
		case *closure:
			if v != nil {
				for _, e := range v.Env {
					walk(e)
				}
			}
		case *omap:
			if v == nil || i.frozenMaps[v] {
				return
			}
			i.frozenMaps[v] = true
			for _, e := range v.ents {
				walk(e.k)
				walk(e.v)
			}
		case tuple:
			for k := range v {
				walk(v[k])
			}
		}
	}
	for _, root := range a[0].([]value) {
		walk(root.(iface).v)
	}
	// package-level variables of the repo are shared by all runs as well
	for g, cell := range i.globals {
		if g.Pkg != nil && strings.HasPrefix(g.Pkg.Pkg.Path(), "github.com/sdcio/yang-parser/xpath") {
			i.frozen[cell] = true
			markCells(i, *cell)
			walk(*cell)
		}
	}
	return nil
}

// markCells marks the addressable sub-cells of an aggregate stored in a frozen cell.
func markCells(i *interpreter, v value) {
	switch v := v.(type) {
	case structure:
		for k := range v {
			i.frozen[&v[k]] = true
			markCells(i, v[k])
		}
	case array:
		for k := range v {
			i.frozen[&v[k]] = true
			markCells(i, v[k])
		}
	}
}

func (i *interpreter) checkFrozenWrite(addr *value) {
	if i.frozen[addr] {
		site := "?"
		i.frozenWrites = append(i.frozenWrites, site)
		i.locksetAccess(addr, true)
	}
}

func (i *interpreter) checkFrozenMap(m *omap) {
	if i.frozenMaps[m] {
		i.frozenWrites = append(i.frozenWrites, "map")
		i.locksetAccess(m, true)
	}
}

// ---- lock-set discipline on frozen (shared) state, after Eraser: for every shared
// location that is WRITTEN while frozen, the locks held at all of its accesses (reads
// and writes) must have a common member.

type lockAcc struct {
	written bool
	locks   map[*value]bool // intersection of the lock-sets of all accesses so far
}

func (i *interpreter) locksetAccess(loc interface{}, write bool) {
	if i.lockAccs == nil {
		i.lockAccs = map[interface{}]*lockAcc{}
	}
	a := i.lockAccs[loc]
	if a == nil {
		a = &lockAcc{locks: map[*value]bool{}}
		for k := range i.held {
			a.locks[k] = true
		}
		i.lockAccs[loc] = a
	} else {
		for k := range a.locks {
			if _, ok := i.held[k]; !ok {
				delete(a.locks, k)
			}
		}
	}
	if write {
		a.written = true
	}
}

func (i *interpreter) noteFrozenRead(addr *value) {
	if i.frozen[addr] {
		i.locksetAccess(addr, false)
	}
}

func (i *interpreter) noteFrozenMapRead(m *omap) {
	if i.frozenMaps[m] {
		i.locksetAccess(m, false)
	}
}

func extVrtLocksetViolations(fr *frame, a []value) value {
	n := 0
	for _, acc := range fr.i.lockAccs {
		if acc.written && len(acc.locks) == 0 {
			n++
		}
	}
	return n
}

func extVrtFrozenWrites(fr *frame, a []value) value { return len(fr.i.frozenWrites) }

// ---------------------------------------------------------------- sync

func mutexKey(a []value) *value { return a[0].(*value) }

func extMutexLock(fr *frame, a []value) value {
	i := fr.i
	if i.held == nil {
		i.held = map[*value]int{}
	}
	k := mutexKey(a)
	if i.held[k] != 0 {
		panic(pathEnd{kind: "deadlock", msg: "sync.Mutex locked twice by the sequential execution"})
	}
	i.held[k] = 1
	return nil
}

func extMutexUnlock(fr *frame, a []value) value {
	i := fr.i
	k := mutexKey(a)
	if i.held[k] != 1 {
		panic(targetPanic{iface{i.runtimeErrorString, "sync: unlock of unlocked mutex"}})
	}
	delete(i.held, k)
	return nil
}

func extRLock(fr *frame, a []value) value {
	i := fr.i
	if i.held == nil {
		i.held = map[*value]int{}
	}
	k := mutexKey(a)
	if i.held[k] == 1 {
		panic(pathEnd{kind: "deadlock", msg: "RLock while write-locked"})
	}
	i.held[k] -= 1 // negative = reader count
	return nil
}

func extRUnlock(fr *frame, a []value) value {
	i := fr.i
	k := mutexKey(a)
	if i.held[k] >= 0 {
		panic(targetPanic{iface{i.runtimeErrorString, "sync: RUnlock of unlocked RWMutex"}})
	}
	i.held[k] += 1
	if i.held[k] == 0 {
		delete(i.held, k)
	}
	return nil
}

func extOnceDo(fr *frame, a []value) value {
	i := fr.i
	p := a[0].(*value)
	st := (*p).(structure)
	// sync.Once{done atomic.Uint32{_ noCopy; v uint32}; m Mutex}
	done := st[0].(structure)
	if done[1].(uint32) != 0 {
		return nil
	}
	call(i, fr, 0, a[1], nil)
	i.write(&done[1], uint32(1))
	return nil
}

func extAtomicLoad(fr *frame, a []value) value { return *a[0].(*value) }
func extAtomicStore(fr *frame, a []value) value {
	fr.i.write(a[0].(*value), a[1])
	return nil
}
func extAtomicAdd(fr *frame, a []value) value {
	p := a[0].(*value)
	nv := fr.i.binop(12 /*token.ADD*/, nil, *p, a[1])
	fr.i.write(p, nv)
	return nv
}
func extAtomicCAS(fr *frame, a []value) value {
	p := a[0].(*value)
	if fr.i.truth(fr.i.equals(nil, *p, a[1])) {
		fr.i.write(p, a[2])
		return true
	}
	return false
}

// ---------------------------------------------------------------- bytes/strings

func seqBytes(v value) []value {
	switch v := v.(type) {
	case []value:
		return v
	case string, sstr:
		return strBytes(v)
	}
	panic(fmt.Sprintf("seqBytes %T", v))
}

func allConcrete(bs []value) bool {
	for _, b := range bs {
		if _, ok := b.(sym); ok {
			return false
		}
	}
	return true
}

func toGoBytes(bs []value) []byte {
	r := make([]byte, len(bs))
	for k, b := range bs {
		r[k] = b.(uint8)
	}
	return r
}

func extIndexByte(fr *frame, a []value) value {
	i := fr.i
	s := seqBytes(a[0])
	c := a[1]
	for k, b := range s {
		if i.truth(i.equalsScalar(b, c)) {
			return k
		}
	}
	return -1
}

func extCountByte(fr *frame, a []value) value {
	i := fr.i
	s := seqBytes(a[0])
	n := 0
	for _, b := range s {
		if i.truth(i.equalsScalar(b, a[1])) {
			n++
		}
	}
	return n
}

func extBytesEqual(fr *frame, a []value) value {
	i := fr.i
	x, y := seqBytes(a[0]), seqBytes(a[1])
	if len(x) != len(y) {
		return false
	}
	var acc value = true
	for k := range x {
		acc = i.and(acc, i.equalsScalar(x[k], y[k]))
	}
	return acc
}

func extCompare(fr *frame, a []value) value {
	i := fr.i
	x, y := seqBytes(a[0]), seqBytes(a[1])
	if allConcrete(x) && allConcrete(y) {
		return strings.Compare(string(toGoBytes(x)), string(toGoBytes(y)))
	}
	if i.truth(i.strLess(x, y, false)) {
		return -1
	}
	if i.truth(i.strLess(y, x, false)) {
		return 1
	}
	return 0
}

func extIndex(fr *frame, a []value) value {
	i := fr.i
	s, sub := seqBytes(a[0]), seqBytes(a[1])
	if allConcrete(s) && allConcrete(sub) {
		return strings.Index(string(toGoBytes(s)), string(toGoBytes(sub)))
	}
	n, m := len(s), len(sub)
	for k := 0; k+m <= n; k++ {
		var acc value = true
		for j := 0; j < m; j++ {
			acc = i.and(acc, i.equalsScalar(s[k+j], sub[j]))
			if acc == false {
				break
			}
		}
		if i.truth(acc) {
			return k
		}
	}
	return -1
}

func extMakeNoZero(fr *frame, a []value) value {
	n := int(fr.i.intArg(a[0], "MakeNoZero"))
	r := make([]value, n)
	for k := range r {
		r[k] = uint8(0)
	}
	return r
}

// ---------------------------------------------------------------- math

func (i *interpreter) fpRound(x value, mode int, f func(float64) float64) value {
	if s, ok := x.(sym); ok {
		return i.val(i.ctx.FpRound(mode, s.t), s.k)
	}
	return f(x.(float64))
}

func extAbs(fr *frame, a []value) value {
	if s, ok := a[0].(sym); ok {
		return fr.i.val(fr.i.ctx.FpUn(smt.OFpAbs, s.t), s.k)
	}
	return math.Abs(a[0].(float64))
}

func extIsNaN(fr *frame, a []value) value {
	if s, ok := a[0].(sym); ok {
		return fr.i.val(fr.i.ctx.FpPred(smt.OFpIsNaN, s.t), types.Bool)
	}
	return math.IsNaN(a[0].(float64))
}

func extIsInf(fr *frame, a []value) value {
	i := fr.i
	s, ok := a[0].(sym)
	if !ok {
		if sg, ok := a[1].(sym); ok {
			sign := int(asInt64(i.concretise(sg, "math.IsInf sign")))
			return math.IsInf(a[0].(float64), sign)
		}
		return math.IsInf(a[0].(float64), int(asInt64(a[1])))
	}
	sign := int(asInt64(i.concretise(a[1], "math.IsInf sign")))
	c := i.ctx
	inf := c.FpPred(smt.OFpIsInf, s.t)
	neg := c.FpPred(smt.OFpIsNeg, s.t)
	switch {
	case sign > 0:
		return i.val(c.And(inf, c.Not(neg)), types.Bool)
	case sign < 0:
		return i.val(c.And(inf, neg), types.Bool)
	}
	return i.val(inf, types.Bool)
}

func extSignbit(fr *frame, a []value) value {
	if s, ok := a[0].(sym); ok {
		// sign bit including NaN's is not observable through FP predicates; use bits
		b := fr.i.floatBits(s)
		return fr.i.val(fr.i.ctx.Eq(fr.i.ctx.Extract(b, 63, 63), fr.i.ctx.BVConst(1, 1)), types.Bool)
	}
	return math.Signbit(a[0].(float64))
}

func extCopysign(fr *frame, a []value) value {
	i := fr.i
	if !isSym(a[0]) && !isSym(a[1]) {
		return math.Copysign(a[0].(float64), a[1].(float64))
	}
	c := i.ctx
	xb := i.floatBitsV(a[0])
	yb := i.floatBitsV(a[1])
	r := c.Concat(c.Extract(yb, 63, 63), c.Extract(xb, 62, 0))
	return i.val(c.FpOfBits(r), types.Float64)
}

func (i *interpreter) floatBitsV(v value) *smt.Term {
	if s, ok := v.(sym); ok {
		return i.floatBits(s)
	}
	return i.ctx.BVConst(64, math.Float64bits(v.(float64)))
}

// floatBits gives the IEEE bit pattern of a symbolic float64: a fresh bit-vector b with
// to_fp(b) = x (NaN payloads are unconstrained).
func (i *interpreter) floatBits(s sym) *smt.Term {
	c := i.ctx
	if s.t.Op == smt.OFpOfBits {
		// x = to_fp(b): b itself is a valid pattern unless NaN (any payload is fine)
		return s.t.Args[0]
	}
	name := fmt.Sprintf("$bits%d", s.t.ID)
	b := i.newVar(name, smt.BV(kindWidth(s.k)))
	i.assume(c.Eq(c.FpOfBits(b), s.t))
	return b
}

func extFloat64bits(fr *frame, a []value) value {
	if s, ok := a[0].(sym); ok {
		return fr.i.val(fr.i.floatBits(s), types.Uint64)
	}
	return math.Float64bits(a[0].(float64))
}

func extFloat64frombits(fr *frame, a []value) value {
	if s, ok := a[0].(sym); ok {
		return fr.i.val(fr.i.ctx.FpOfBits(s.t), types.Float64)
	}
	return math.Float64frombits(a[0].(uint64))
}

func extFloat32bits(fr *frame, a []value) value {
	if s, ok := a[0].(sym); ok {
		return fr.i.val(fr.i.floatBits(s), types.Uint32)
	}
	return math.Float32bits(a[0].(float32))
}

func extFloat32frombits(fr *frame, a []value) value {
	if s, ok := a[0].(sym); ok {
		return fr.i.val(fr.i.ctx.FpOfBits(s.t), types.Float32)
	}
	return math.Float32frombits(a[0].(uint32))
}

// floatStructEq: both NaN, or identical (distinguishing -0 from +0).
func (i *interpreter) floatStructEq(x, y value) value {
	if !isSym(x) && !isSym(y) {
		a, b := x.(float64), y.(float64)
		if a != a || b != b {
			return a != a && b != b
		}
		return math.Float64bits(a) == math.Float64bits(b)
	}
	return i.val(i.ctx.Eq(i.term(x), i.term(y)), types.Bool)
}

func init() {
	smt.UFInterp["fmod"] = func(a []uint64) uint64 {
		return math.Float64bits(math.Mod(math.Float64frombits(a[0]), math.Float64frombits(a[1])))
	}
}

// extFmod: math.Mod is an uninterpreted function of its operands when one is symbolic.
func extFmod(fr *frame, a []value) value {
	i := fr.i
	if !isSym(a[0]) && !isSym(a[1]) {
		r := math.Mod(a[0].(float64), a[1].(float64))
		// a true fact about the real function, so that the uninterpreted symbol agrees
		// with native evaluation wherever the latter was used
		c := i.ctx
		i.sess.AddFact("fmod", c.Eq(c.UF("fmod", smt.FP(64), i.term(a[0]), i.term(a[1])), c.FPConst64(r)))
		return r
	}
	return i.val(i.ctx.UF("fmod", smt.FP(64), i.term(a[0]), i.term(a[1])), types.Float64)
}

func extConcreteF1(f func(float64) float64, name string) externalFn {
	return func(fr *frame, a []value) value {
		if isSym(a[0]) {
			panic(pathEnd{kind: "unsupported", msg: name + " of a symbolic float"})
		}
		return f(a[0].(float64))
	}
}

func extPow(fr *frame, a []value) value {
	if isSym(a[0]) || isSym(a[1]) {
		panic(pathEnd{kind: "unsupported", msg: "math.Pow of a symbolic float"})
	}
	return math.Pow(a[0].(float64), a[1].(float64))
}
func extFrexp(fr *frame, a []value) value {
	if isSym(a[0]) {
		panic(pathEnd{kind: "unsupported", msg: "math.Frexp of a symbolic float"})
	}
	f, e := math.Frexp(a[0].(float64))
	return tuple{f, e}
}
func extLdexp(fr *frame, a []value) value {
	if isSym(a[0]) || isSym(a[1]) {
		panic(pathEnd{kind: "unsupported", msg: "math.Ldexp of a symbolic float"})
	}
	return math.Ldexp(a[0].(float64), a[1].(int))
}
func extModf(fr *frame, a []value) value {
	if isSym(a[0]) {
		panic(pathEnd{kind: "unsupported", msg: "math.Modf of a symbolic float"})
	}
	ip, fp := math.Modf(a[0].(float64))
	return tuple{ip, fp}
}

// ---------------------------------------------------------------- strconv floats

// extParseFloat: concrete text is converted natively; symbolic text is executed from the
// real source (syntax stage forks on bytes; the value stage is pure integer/float code).
func extParseFloat(fr *frame, a []value) value {
	i := fr.i
	if s, ok := a[0].(string); ok {
		bits := int(asInt64(i.concretise(a[1], "ParseFloat bitSize")))
		f, err := strconv.ParseFloat(s, bits)
		if err != nil {
			ne := err.(*strconv.NumError)
			return tuple{f, i.makeNumError(ne.Func, ne.Num, ne.Err)}
		}
		return tuple{f, iface{}}
	}
	fn := i.cfg.FuncByName("strconv.parseFloatPrefix")
	_ = fn
	// run the real implementation: strconv.ParseFloat body minus this intrinsic
	return i.callBody(fr, "strconv.ParseFloat", a)
}

func extFormatFloat(fr *frame, a []value) value {
	i := fr.i
	if isSym(a[0]) {
		panic(pathEnd{kind: "unsupported", msg: "strconv.FormatFloat of a symbolic float"})
	}
	f := a[0].(float64)
	fmtc := byte(asInt64(i.concretise(a[1], "fmt")))
	prec := int(asInt64(i.concretise(a[2], "prec")))
	bits := int(asInt64(i.concretise(a[3], "bits")))
	return strconv.FormatFloat(f, fmtc, prec, bits)
}

// callBody interprets the SSA body of a function that has an intrinsic registered.
func (i *interpreter) callBody(fr *frame, name string, args []value) value {
	fn := i.cfg.FuncByName(name)
	if fn == nil {
		panic(pathEnd{kind: "unsupported", msg: "function not in program: " + name})
	}
	fi := i.info(fn)
	saved := fi.ext
	fi.ext = nil
	defer func() { fi.ext = saved }()
	return callSSA(i, fr, 0, fn, args, nil)
}

func (i *interpreter) makeNumError(fn, num string, err error) value {
	pkg := i.prog.ImportedPackage("strconv")
	T := pkg.Type("NumError").Type()
	var errv value
	switch err {
	case strconv.ErrSyntax:
		errv = *i.globals[pkg.Var("ErrSyntax")]
	case strconv.ErrRange:
		errv = *i.globals[pkg.Var("ErrRange")]
	default:
		errv = iface{i.runtimeErrorString, err.Error()}
	}
	var cell value = structure{fn, num, errv}
	return iface{types.NewPointer(T), &cell}
}

func extTimeNow(fr *frame, a []value) value {
	// time.Time{wall uint64, ext int64, loc *Location}
	return structure{uint64(0), int64(0), (*value)(nil)}
}

var _ = sort.Ints
var _ = reflect.TypeOf
var _ = unsafe.Pointer(nil)

// ---- sync.WaitGroup (counter in a per-path side table), sync.Pool, atomic.Value

func extWaitGroupAdd(fr *frame, a []value) value {
	i := fr.i
	p := a[0].(*value)
	if i.waitGroups == nil {
		i.waitGroups = map[*value]int{}
	}
	i.waitGroups[p] += int(i.intArg(a[1], "WaitGroup.Add"))
	if i.waitGroups[p] < 0 {
		panic(targetPanic{iface{i.runtimeErrorString, "sync: negative WaitGroup counter"}})
	}
	return nil
}

func extWaitGroupWait(fr *frame, a []value) value {
	i := fr.i
	p := a[0].(*value)
	i.waitUntil(func() bool { return i.waitGroups[p] <= 0 }, "WaitGroup.Wait")
	return nil
}

// sync.Pool: Get may return any object Put earlier, or a new one.  The model always
// hands back the most recently Put object when there is one (the behaviour that
// exposes state left in recycled objects; natively the same goroutine sees the same).
func extPoolPut(fr *frame, a []value) value {
	i := fr.i
	p := a[0].(*value)
	if x, ok := a[1].(iface); !ok || x.t == nil {
		return nil
	}
	if i.pools == nil {
		i.pools = map[*value][]value{}
	}
	i.pools[p] = append(i.pools[p], a[1])
	return nil
}

func extPoolGet(fr *frame, a []value) value {
	if p := a[0].(*value); len(fr.i.pools[p]) > 0 {
		l := fr.i.pools[p]
		x := l[len(l)-1]
		fr.i.pools[p] = l[:len(l)-1]
		return x
	}
	st := (*a[0].(*value)).(structure)
	newFn := st[len(st)-1] // sync.Pool's last field is New func() any
	switch f := newFn.(type) {
	case *ssa.Function:
		if f == nil {
			return iface{}
		}
	case nil:
		return iface{}
	}
	return call(fr.i, fr, 0, newFn, nil)
}

func extAtomicValueStore(fr *frame, a []value) value {
	v := a[1].(iface)
	if v.t == nil {
		panic(targetPanic{iface{fr.i.runtimeErrorString, "sync/atomic: store of nil value into Value"}})
	}
	st := (*a[0].(*value)).(structure)
	fr.i.write(&st[0], v)
	return nil
}
