package interp

import (
	"fmt"
	"math"
	"strconv"
	"strings"

	"gosx/smt"
)

// canonObserved renders the observations of a path under a model, in the same
// canonical text the native vrt.Observe produces.
func (i *interpreter) canonObserved(obs []obsRec, m smt.Model) []string {
	ev := smt.NewEvaluator(i.ctx, m)
	conc := func(v value) value {
		if s, ok := v.(sym); ok {
			return concreteOfKind(s.k, ev.Eval(s.t))
		}
		return v
	}
	bytesOf := func(bs []value) string {
		b := make([]byte, len(bs))
		for k, e := range bs {
			b[k] = conc(e).(uint8)
		}
		return string(b)
	}
	var out []string
	for _, o := range obs {
		var sb strings.Builder
		sb.WriteString(o.key)
		for _, v := range o.vals {
			sb.WriteString(" ")
			switch v := v.(type) {
			case nil:
				sb.WriteString("nil")
			case string:
				sb.WriteString(strconv.Quote(v))
			case sstr:
				sb.WriteString(strconv.Quote(bytesOf(v)))
			case []value:
				sb.WriteString(strconv.Quote(bytesOf(v)))
			default:
				sb.WriteString(canonScalar(conc(v)))
			}
		}
		out = append(out, sb.String())
	}
	return out
}

func canonScalar(v value) string {
	switch v := v.(type) {
	case bool:
		return strconv.FormatBool(v)
	case float64:
		if v != v {
			return "NaN"
		}
		s := strconv.FormatFloat(v, 'g', -1, 64)
		if v == 0 && math.Signbit(v) {
			s += "(-0)"
		}
		return s
	case float32:
		return canonScalar(float64(v))
	case int, int8, int16, int32, int64:
		return strconv.FormatInt(asInt64(v), 10)
	case uint, uint8, uint16, uint32, uint64, uintptr:
		return strconv.FormatUint(uint64(asInt64(v)), 10)
	}
	return fmt.Sprintf("?%T", v)
}
