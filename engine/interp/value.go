// Derived from golang.org/x/tools/go/ssa/interp (BSD-style licence, The Go Authors);
// the value model is extended with symbolic scalars and symbolic-content strings.

package interp

// Values
//
// All interpreter values are "boxed" in the empty interface, value.
// The range of possible dynamic types within value are:
//
// - bool
// - numbers (all built-in int/float/complex types are distinguished)
// - sym --- a symbolic scalar (Bool, any integer kind, float32/64): an SMT term
// - string --- fully concrete string
// - sstr --- a string of concrete length whose bytes may be symbolic
// - *omap --- maps (insertion ordered)
// - *schan --- channels
// - []value --- slices
// - iface --- interfaces.
// - structure --- structs.  Fields are ordered and accessed by numeric indices.
// - array --- arrays.
// - *value --- pointers.  Careful: *value is a distinct type from *array etc.
// - *ssa.Function \
//   *ssa.Builtin   } --- functions.  A nil 'func' is always of type *ssa.Function.
//   *closure      /
// - tuple --- as returned by Return, Next, "value,ok" modes, etc.
// - iter --- iterators from 'range' over map or string.
// - bad --- a poison pill for locals that have gone out of scope.
// - **deferred -- the address of a frame's defer stack for a Defer._Stack.

import (
	"bytes"
	"fmt"
	"go/types"
	"sync"
	"unsafe"

	"golang.org/x/tools/go/ssa"
	"golang.org/x/tools/go/types/typeutil"

	"gosx/smt"
)

type value interface{}

type tuple []value

type array []value

type iface struct {
	t types.Type // never an "untyped" type
	v value
}

type structure []value

// sym is a symbolic scalar.
type sym struct {
	t *smt.Term
	k types.BasicKind
}

// sstr is a string with concrete length; elements are uint8 or sym{k:Uint8}.
type sstr []value

// results of unsafe.SliceData / unsafe.StringData
type sliceData struct{ s []value }
type stringData struct{ s value }

// For map, array, *array, slice, string or channel.
type iter interface {
	// next returns a Tuple (key, value, ok).
	next(fr *frame) tuple
}

type closure struct {
	Fn  *ssa.Function
	Env []value
}

type bad struct{}

var (
	mu     sync.Mutex
	hasher = typeutil.MakeHasher()
)

func hashString(s string) int {
	var h uint32
	for i := 0; i < len(s); i++ {
		h ^= uint32(s[i])
		h *= 16777619
	}
	return int(h)
}

func hashType(t types.Type) int {
	mu.Lock()
	defer mu.Unlock()
	return int(hasher.Hash(t))
}

// nil-tolerant variant of types.Identical.
func sameType(x, y types.Type) bool {
	if x == nil {
		return y == nil
	}
	return y != nil && types.Identical(x, y)
}

func isSym(v value) bool {
	switch v.(type) {
	case sym, sstr:
		return true
	}
	return false
}

// containsSym reports whether a (possibly aggregate) comparable value has symbolic leaves.
func containsSym(v value) bool {
	switch v := v.(type) {
	case sym, sstr:
		return true
	case structure:
		for _, e := range v {
			if containsSym(e) {
				return true
			}
		}
	case array:
		for _, e := range v {
			if containsSym(e) {
				return true
			}
		}
	case iface:
		return containsSym(v.v)
	}
	return false
}

// equals returns x == y for type t as a bool or a symbolic Bool.
func (i *interpreter) equals(t types.Type, x, y value) value {
	switch x := x.(type) {
	case sym:
		return i.symBinopCmp("==", x, y)
	case sstr:
		return i.strEq(x, y)
	case string:
		if ys, ok := y.(sstr); ok {
			return i.strEq(ys, x)
		}
		return x == y.(string)
	case structure:
		y := y.(structure)
		var tStruct *types.Struct
		if t != nil {
			tStruct, _ = t.Underlying().(*types.Struct)
		}
		var acc value = true
		for k := range x {
			var ft types.Type
			if tStruct != nil {
				f := tStruct.Field(k)
				if f.Name() == "_" {
					continue
				}
				ft = f.Type()
			}
			acc = i.and(acc, i.equals(ft, x[k], y[k]))
			if acc == false {
				return false
			}
		}
		return acc
	case array:
		y := y.(array)
		var et types.Type
		if t != nil {
			et = t.Underlying().(*types.Array).Elem()
		}
		var acc value = true
		for k := range x {
			acc = i.and(acc, i.equals(et, x[k], y[k]))
			if acc == false {
				return false
			}
		}
		return acc
	case iface:
		y := y.(iface)
		if !sameType(x.t, y.t) {
			return false
		}
		if x.t == nil {
			return true
		}
		return i.equals(x.t, x.v, y.v)
	}
	if _, ok := y.(sym); ok {
		return i.symBinopCmp("==", x, y)
	}
	switch x := x.(type) {
	case bool:
		return x == y.(bool)
	case int:
		return x == y.(int)
	case int8:
		return x == y.(int8)
	case int16:
		return x == y.(int16)
	case int32:
		return x == y.(int32)
	case int64:
		return x == y.(int64)
	case uint:
		return x == y.(uint)
	case uint8:
		return x == y.(uint8)
	case uint16:
		return x == y.(uint16)
	case uint32:
		return x == y.(uint32)
	case uint64:
		return x == y.(uint64)
	case uintptr:
		return x == y.(uintptr)
	case float32:
		return x == y.(float32)
	case float64:
		return x == y.(float64)
	case complex64:
		return x == y.(complex64)
	case complex128:
		return x == y.(complex128)
	case *value:
		return x == y.(*value)
	case *schan:
		return x == y.(*schan)
	case unsafe.Pointer:
		return x == y.(unsafe.Pointer)
	}

	// Since map, func and slice don't support comparison, this
	// case is only reachable if one of x or y is literally nil
	// (handled in eqnil) or via interface{} values.
	panic(targetPanic{i.runtimeError(fmt.Sprintf("comparing uncomparable type %s", t))})
}

// hashKey gives a Go-comparable key for a *concrete* comparable value (no symbolic leaves).
func hashKey(v value) interface{} {
	switch v := v.(type) {
	case structure:
		var b bytes.Buffer
		b.WriteString("S{")
		for _, e := range v {
			fmt.Fprintf(&b, "%T:%v|", hashKey(e), hashKey(e))
		}
		return b.String()
	case array:
		var b bytes.Buffer
		b.WriteString("A[")
		for _, e := range v {
			fmt.Fprintf(&b, "%T:%v|", hashKey(e), hashKey(e))
		}
		return b.String()
	case iface:
		if v.t == nil {
			return "I<nil>"
		}
		hk := hashKey(v.v)
		return fmt.Sprintf("I(%s)%T:%v", v.t.String(), hk, hk)
	}
	return v
}

// load returns the value of type T in *addr.
func load(T types.Type, addr *value) value {
	switch T := T.Underlying().(type) {
	case *types.Struct:
		v := (*addr).(structure)
		a := make(structure, len(v))
		for i := range a {
			a[i] = load(T.Field(i).Type(), &v[i])
		}
		return a
	case *types.Array:
		v := (*addr).(array)
		a := make(array, len(v))
		for i := range a {
			a[i] = load(T.Elem(), &v[i])
		}
		return a
	default:
		return *addr
	}
}

// copyVal makes an unaliased copy of an aggregate value.
func copyVal(v value) value {
	switch v := v.(type) {
	case structure:
		a := make(structure, len(v))
		for i := range a {
			a[i] = copyVal(v[i])
		}
		return a
	case array:
		a := make(array, len(v))
		for i := range a {
			a[i] = copyVal(v[i])
		}
		return a
	}
	return v
}

// store stores value v of type T into *addr, logging the old contents for undo.
func (i *interpreter) store(T types.Type, addr *value, v value) {
	switch T := T.Underlying().(type) {
	case *types.Struct:
		lhs := (*addr).(structure)
		rhs := v.(structure)
		for k := range lhs {
			i.store(T.Field(k).Type(), &lhs[k], rhs[k])
		}
	case *types.Array:
		lhs := (*addr).(array)
		rhs := v.(array)
		for k := range lhs {
			i.store(T.Elem(), &lhs[k], rhs[k])
		}
	default:
		i.write(addr, v)
	}
}

// write is the single primitive heap mutation.
func (i *interpreter) write(addr *value, v value) {
	if i.frozen != nil {
		i.checkFrozenWrite(addr)
	}
	i.undo = append(i.undo, undoRec{addr: addr, old: *addr})
	*addr = v
}

type undoRec struct {
	addr *value
	old  value
	m    *omap // map undo: restore snapshot
	ents []mentry
}

func (i *interpreter) rollback() {
	for k := len(i.undo) - 1; k >= 0; k-- {
		u := i.undo[k]
		if u.m != nil {
			u.m.restoreOp(u)
		} else {
			*u.addr = u.old
		}
	}
	i.undo = i.undo[:0]
}

// Prints in the style of built-in println.
func writeValue(buf *bytes.Buffer, v value) {
	switch v := v.(type) {
	case nil, bool, int, int8, int16, int32, int64, uint, uint8, uint16, uint32, uint64, uintptr, float32, float64, complex64, complex128, string:
		fmt.Fprintf(buf, "%v", v)
	case sym:
		fmt.Fprintf(buf, "<sym %s>", v.t.String())
	case sstr:
		buf.WriteString("<sstr")
		for _, e := range v {
			buf.WriteString(" ")
			writeValue(buf, e)
		}
		buf.WriteString(">")
	case *omap:
		buf.WriteString("map[")
		if v != nil {
			for k, e := range v.ents {
				if e.dead {
					continue
				}
				if k > 0 {
					buf.WriteString(" ")
				}
				writeValue(buf, e.k)
				buf.WriteString(":")
				writeValue(buf, e.v)
			}
		}
		buf.WriteString("]")
	case *schan:
		fmt.Fprintf(buf, "%p", v)
	case *value:
		if v == nil {
			buf.WriteString("<nil>")
		} else {
			fmt.Fprintf(buf, "%p", v)
		}
	case iface:
		fmt.Fprintf(buf, "(%s, ", v.t)
		writeValue(buf, v.v)
		buf.WriteString(")")
	case structure:
		buf.WriteString("{")
		for i, e := range v {
			if i > 0 {
				buf.WriteString(" ")
			}
			writeValue(buf, e)
		}
		buf.WriteString("}")
	case array:
		buf.WriteString("[")
		for i, e := range v {
			if i > 0 {
				buf.WriteString(" ")
			}
			writeValue(buf, e)
		}
		buf.WriteString("]")
	case []value:
		buf.WriteString("[")
		for i, e := range v {
			if i > 0 {
				buf.WriteString(" ")
			}
			writeValue(buf, e)
		}
		buf.WriteString("]")
	case *ssa.Function, *ssa.Builtin, *closure:
		fmt.Fprintf(buf, "%p", v) // (an address)
	case tuple:
		buf.WriteString("(")
		for i, e := range v {
			if i > 0 {
				buf.WriteString(", ")
			}
			writeValue(buf, e)
		}
		buf.WriteString(")")
	default:
		fmt.Fprintf(buf, "<%T>", v)
	}
}

func toString(v value) string {
	var b bytes.Buffer
	writeValue(&b, v)
	return b.String()
}
