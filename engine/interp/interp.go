// Derived from golang.org/x/tools/go/ssa/interp (BSD-style licence, The Go Authors).
//
// Package interp is a bounded symbolic executor for the SSA form of Go programs:
// the concrete interpreter of x/tools extended with symbolic scalars, explicit
// run-time panics, an undo log, cooperative goroutines and a decision protocol that
// lets a driver enumerate every feasible path.
package interp

import (
	"fmt"
	"go/token"
	"go/types"
	"runtime"
	"runtime/debug"
	"slices"
	"strings"
	"sync"

	"golang.org/x/tools/go/ssa"

	"gosx/smt"
)

type continuation int

const (
	kNext continuation = iota
	kReturn
	kJump
)

type methodSet map[string]*ssa.Function

// State of one worker: program, heap roots, solver, current path.
type interpreter struct {
	prog               *ssa.Program
	globals            map[*ssa.Global]*value
	runtimeErrorString types.Type
	sizes              types.Sizes
	ctx                *smt.Ctx
	sess               *smt.Session
	undo               []undoRec
	tables             map[tabKey]*smt.Table
	tabSeq             int
	mapOrder           int
	frozen             map[*value]bool
	frozenMaps         map[*omap]bool
	frozenWrites       []string
	lockAccs           map[interface{}]*lockAcc
	fninfo             map[*ssa.Function]*fnInfo
	initOK             func(pkgPath string) bool
	cfg                *Config

	// current path
	path  *pathState
	steps int64
	depth int

	// goroutines
	gs       []*goroutine
	cur      *goroutine
	done     chan pathEnd
	aborting bool
	wg       sync.WaitGroup

	top             *frame
	supp            map[int]*suppInfo
	varIdx          map[string]int
	varTerms        []*smt.Term
	fe              *smt.FastEval
	Enumerated      int64
	held            map[*value]int
	maxConcOverride int
	jsonDecoders    map[*value]*nativeDecoder
	waitGroups      map[*value]int
	pools           map[*value][]value

	// statistics (per worker, merged by the driver)
	FuncInstrs map[*ssa.Function]int64
	StubsHit   map[string]int64
}

type fnInfo struct {
	ext      externalFn
	name     string
	skipInit bool
}

type deferred struct {
	fn    value
	args  []value
	instr *ssa.Defer
	tail  *deferred
}

type frame struct {
	i                *interpreter
	caller           *frame
	fn               *ssa.Function
	block, prevBlock *ssa.BasicBlock
	env              map[ssa.Value]value // dynamic values of SSA variables
	locals           []value
	defers           *deferred
	result           value
	panicking        bool
	panic            interface{}
	phitemps         []value // temporaries for parallel phi assignment
	visits           []int32 // per block, for the unwinding bound
	cur              ssa.Instruction
}

// targetStack renders the target call stack (innermost first).
func (i *interpreter) targetStack() string {
	var parts []string
	for fr := i.top; fr != nil && len(parts) < 25; fr = fr.caller {
		pos := ""
		if fr.cur != nil {
			pos = describePos(i.prog, fr.cur.Pos())
		}
		parts = append(parts, fmt.Sprintf("%s(%s)", fr.fn.String(), pos))
	}
	return strings.Join(parts, " < ")
}

// engine-level control flow (never visible to the target program)
type pathEnd struct {
	kind string // "done", "assume-false", "unsupported", "budget", "deadlock", "panic", "engine-error", "infeasible"
	msg  string
}
type abortPath struct{}

func (fr *frame) get(key ssa.Value) value {
	switch key := key.(type) {
	case nil:
		return nil
	case *ssa.Function, *ssa.Builtin:
		return key
	case *ssa.Const:
		return constValue(key)
	case *ssa.Global:
		if r, ok := fr.i.globals[key]; ok {
			return r
		}
		return fr.i.lazyGlobal(key)
	}
	if r, ok := fr.env[key]; ok {
		return r
	}
	panic(fmt.Sprintf("get: no value for %T: %v", key, key.Name()))
}

func (i *interpreter) lazyGlobal(g *ssa.Global) *value {
	cell := zero(deref(g.Type()))
	p := &cell
	i.globals[g] = p
	return p
}

// runDefer runs a deferred call d.
// It always returns normally, but may set or clear fr.panic.
func (fr *frame) runDefer(d *deferred) {
	var ok bool
	defer func() {
		if !ok {
			r := recover()
			if isEngineAbort(r) {
				panic(r)
			}
			// Deferred call created a new state of panic.
			fr.panicking = true
			fr.panic = fr.i.classifyPanic(r)
		}
	}()
	call(fr.i, fr, d.instr.Pos(), d.fn, d.args)
	ok = true
}

func isEngineAbort(r interface{}) bool {
	switch r.(type) {
	case pathEnd, abortPath:
		return true
	}
	return false
}

// classifyPanic keeps target panics and turns anything else (a Go run-time error or
// an explicit panic inside the engine) into an engine-error path end.
func (i *interpreter) classifyPanic(r interface{}) interface{} {
	switch r := r.(type) {
	case targetPanic:
		return r
	case pathEnd, abortPath:
		panic(r)
	default:
		msg := fmt.Sprintf("%v", r)
		if i.cfg != nil && i.cfg.Debug {
			msg += "\n" + string(debug.Stack())
		} else {
			msg += " @ " + shortStack()
		}
		panic(pathEnd{kind: "engine-error", msg: msg})
	}
}

func shortStack() string {
	pc := make([]uintptr, 12)
	n := runtime.Callers(4, pc)
	frames := runtime.CallersFrames(pc[:n])
	var parts []string
	for {
		f, more := frames.Next()
		if strings.Contains(f.Function, "gosx/") {
			parts = append(parts, fmt.Sprintf("%s:%d", f.Function[strings.LastIndex(f.Function, "/")+1:], f.Line))
		}
		if !more || len(parts) >= 6 {
			break
		}
	}
	return strings.Join(parts, " < ")
}

// runDefers executes fr's deferred function calls in LIFO order.
func (fr *frame) runDefers() {
	for d := fr.defers; d != nil; d = d.tail {
		fr.runDefer(d)
	}
	fr.defers = nil
	if fr.panicking {
		panic(fr.panic) // new panic, or still panicking
	}
}

func lookupMethod(i *interpreter, typ types.Type, meth *types.Func) *ssa.Function {
	return i.prog.LookupMethod(typ, meth.Pkg(), meth.Name())
}

// visitInstr interprets a single ssa.Instruction within the activation
// record frame.
func visitInstr(fr *frame, instr ssa.Instruction) continuation {
	i := fr.i
	switch instr := instr.(type) {
	case *ssa.DebugRef:
		// no-op

	case *ssa.UnOp:
		fr.env[instr] = i.unop(fr, instr, fr.get(instr.X))

	case *ssa.BinOp:
		fr.env[instr] = i.binop(instr.Op, instr.X.Type(), fr.get(instr.X), fr.get(instr.Y))

	case *ssa.Call:
		fn, args := prepareCall(fr, &instr.Call)
		fr.env[instr] = call(fr.i, fr, instr.Pos(), fn, args)

	case *ssa.ChangeInterface:
		fr.env[instr] = fr.get(instr.X)

	case *ssa.ChangeType:
		fr.env[instr] = fr.get(instr.X) // (can't fail)

	case *ssa.Convert:
		fr.env[instr] = i.conv(fr, instr.Type(), instr.X.Type(), fr.get(instr.X))

	case *ssa.MultiConvert:
		fr.env[instr] = i.conv(fr, instr.Type(), instr.X.Type(), fr.get(instr.X))

	case *ssa.SliceToArrayPointer:
		fr.env[instr] = sliceToArrayPointer(instr.Type(), instr.X.Type(), fr.get(instr.X))

	case *ssa.MakeInterface:
		fr.env[instr] = iface{t: instr.X.Type(), v: fr.get(instr.X)}

	case *ssa.Extract:
		fr.env[instr] = fr.get(instr.Tuple).(tuple)[instr.Index]

	case *ssa.Slice:
		fr.env[instr] = i.slice(fr.get(instr.X), fr.get(instr.Low), fr.get(instr.High), fr.get(instr.Max))

	case *ssa.Return:
		switch len(instr.Results) {
		case 0:
		case 1:
			fr.result = fr.get(instr.Results[0])
		default:
			var res []value
			for _, r := range instr.Results {
				res = append(res, fr.get(r))
			}
			fr.result = tuple(res)
		}
		fr.block = nil
		return kReturn

	case *ssa.RunDefers:
		fr.runDefers()

	case *ssa.Panic:
		panic(targetPanic{fr.get(instr.X)})

	case *ssa.Send:
		i.chanSend(fr.get(instr.Chan).(*schan), fr.get(instr.X))

	case *ssa.Store:
		switch addr := fr.get(instr.Addr).(type) {
		case *value:
			if addr == nil {
				i.throw("invalid memory address or nil pointer dereference")
			}
			i.store(deref(instr.Addr.Type()), addr, fr.get(instr.Val))
		case symptr:
			v := fr.get(instr.Val)
			for k := range addr.elems {
				cond := i.ctx.Eq(addr.idx, i.ctx.BVConst(64, uint64(k)))
				nv, ok := i.iteValue(cond, v, addr.elems[k])
				if !ok {
					// not mergeable: fork on the index instead
					kk := i.concretiseTerm(addr.idx, "store index")
					i.store(deref(instr.Addr.Type()), &addr.elems[kk], v)
					break
				}
				i.store(deref(instr.Addr.Type()), &addr.elems[k], nv)
			}
		default:
			panic(fmt.Sprintf("store to %T", addr))
		}

	case *ssa.If:
		succ := 1
		if i.truth(fr.get(instr.Cond)) {
			succ = 0
		}
		fr.prevBlock, fr.block = fr.block, fr.block.Succs[succ]
		return kJump

	case *ssa.Jump:
		fr.prevBlock, fr.block = fr.block, fr.block.Succs[0]
		return kJump

	case *ssa.Defer:
		fn, args := prepareCall(fr, &instr.Call)
		defers := &fr.defers
		if into := fr.get(instr.DeferStack); into != nil {
			defers = into.(**deferred)
		}
		*defers = &deferred{
			fn:    fn,
			args:  args,
			instr: instr,
			tail:  *defers,
		}

	case *ssa.Go:
		fn, args := prepareCall(fr, &instr.Call)
		i.spawn(instr.Pos(), fn, args)

	case *ssa.MakeChan:
		fr.env[instr] = &schan{cap: int(i.intArg(fr.get(instr.Size), "chan-size")), elemT: instr.Type().Underlying().(*types.Chan).Elem()}

	case *ssa.Alloc:
		var addr *value
		if instr.Heap {
			// new
			addr = new(value)
			fr.env[instr] = addr
		} else {
			// local
			addr = fr.env[instr].(*value)
		}
		*addr = zero(deref(instr.Type()))

	case *ssa.MakeSlice:
		n := i.intArg(fr.get(instr.Len), "make-len")
		c := i.intArg(fr.get(instr.Cap), "make-cap")
		if n < 0 || n > 1<<24 {
			i.throw("makeslice: len out of range")
		}
		if c < n || c > 1<<24 {
			i.throw("makeslice: cap out of range")
		}
		slice := make([]value, c)
		tElt := instr.Type().Underlying().(*types.Slice).Elem()
		for k := range slice {
			slice[k] = zero(tElt)
		}
		fr.env[instr] = slice[:n]

	case *ssa.MakeMap:
		fr.env[instr] = makeMap(instr.Type().Underlying().(*types.Map).Key())

	case *ssa.Range:
		fr.env[instr] = i.rangeIter(fr.get(instr.X), instr.X.Type())

	case *ssa.Next:
		fr.env[instr] = fr.get(instr.Iter).(iter).next(fr)

	case *ssa.FieldAddr:
		p := fr.get(instr.X).(*value)
		if p == nil {
			i.throw("invalid memory address or nil pointer dereference")
		}
		fr.env[instr] = &(*p).(structure)[instr.Field]

	case *ssa.Field:
		fr.env[instr] = fr.get(instr.X).(structure)[instr.Field]

	case *ssa.IndexAddr:
		x := fr.get(instr.X)
		idx := fr.get(instr.Index)
		var elems []value
		switch x := x.(type) {
		case []value:
			elems = x
		case *value: // *array
			if x == nil {
				i.throw("invalid memory address or nil pointer dereference")
			}
			elems = (*x).(array)
		default:
			panic(fmt.Sprintf("unexpected x type in IndexAddr: %T", x))
		}
		k, st := i.indexCheck(idx, len(elems))
		if st == nil {
			fr.env[instr] = &elems[k]
		} else if simpleAddrUse(instr) {
			fr.env[instr] = symptr{elems: elems, idx: st}
		} else {
			kk := i.concretiseTerm(st, "index")
			fr.env[instr] = &elems[kk]
		}

	case *ssa.Index:
		x := fr.get(instr.X)
		idx := fr.get(instr.Index)
		switch x := x.(type) {
		case array:
			k, st := i.indexCheck(idx, len(x))
			if st == nil {
				fr.env[instr] = x[k]
			} else {
				fr.env[instr] = i.selectValue(x, st)
			}
		case string:
			k, st := i.indexCheck(idx, len(x))
			if st == nil {
				fr.env[instr] = x[k]
			} else {
				fr.env[instr] = i.selectValue(strBytes(x), st)
			}
		case sstr:
			k, st := i.indexCheck(idx, len(x))
			if st == nil {
				fr.env[instr] = x[k]
			} else {
				fr.env[instr] = i.selectValue(x, st)
			}
		default:
			panic(fmt.Sprintf("unexpected x type in Index: %T", x))
		}

	case *ssa.Lookup:
		fr.env[instr] = i.lookup(instr, fr.get(instr.X), fr.get(instr.Index))

	case *ssa.MapUpdate:
		m := fr.get(instr.Map).(*omap)
		i.mapInsert(m, fr.get(instr.Key), copyVal(fr.get(instr.Value)))

	case *ssa.TypeAssert:
		fr.env[instr] = i.typeAssert(instr, fr.get(instr.X).(iface))

	case *ssa.MakeClosure:
		var bindings []value
		for _, binding := range instr.Bindings {
			bindings = append(bindings, fr.get(binding))
		}
		fr.env[instr] = &closure{instr.Fn.(*ssa.Function), bindings}

	case *ssa.Phi:
		panic("unreachable") // phis are processed at block entry

	case *ssa.Select:
		fr.env[instr] = i.selectStmt(fr, instr)

	default:
		panic(fmt.Sprintf("unexpected instruction: %T", instr))
	}
	return kNext
}

// simpleAddrUse reports whether the address is only loaded from or stored to.
func simpleAddrUse(instr *ssa.IndexAddr) bool {
	refs := instr.Referrers()
	if refs == nil {
		return false
	}
	for _, r := range *refs {
		switch r := r.(type) {
		case *ssa.UnOp:
			if r.Op != token.MUL {
				return false
			}
		case *ssa.Store:
			if r.Addr != ssa.Value(instr) {
				return false
			}
		case *ssa.DebugRef:
		default:
			return false
		}
	}
	return true
}

// prepareCall determines the function value and argument values for a
// function call in a Call, Go or Defer instruction, performing
// interface method lookup if needed.
func prepareCall(fr *frame, call *ssa.CallCommon) (fn value, args []value) {
	v := fr.get(call.Value)
	if call.Method == nil {
		// Function call.
		fn = v
	} else {
		// Interface method invocation.
		recv := v.(iface)
		if recv.t == nil {
			fr.i.throw("invalid memory address or nil pointer dereference")
		}
		if f := lookupMethod(fr.i, recv.t, call.Method); f == nil {
			// Unreachable in well-typed programs.
			panic(fmt.Sprintf("method set for dynamic type %v does not contain %s", recv.t, call.Method))
		} else {
			fn = f
		}
		args = append(args, recv.v)
	}
	for _, arg := range call.Args {
		args = append(args, fr.get(arg))
	}
	return
}

// call interprets a call to a function (function, builtin or closure)
// fn with arguments args, returning its result.
func call(i *interpreter, caller *frame, callpos token.Pos, fn value, args []value) value {
	switch fn := fn.(type) {
	case *ssa.Function:
		if fn == nil {
			i.throw("invalid memory address or nil pointer dereference") // nil of func type
		}
		return callSSA(i, caller, callpos, fn, args, nil)
	case *closure:
		return callSSA(i, caller, callpos, fn.Fn, args, fn.Env)
	case *ssa.Builtin:
		return i.callBuiltin(caller, callpos, fn, args)
	}
	panic(fmt.Sprintf("cannot call %T", fn))
}

func (i *interpreter) info(fn *ssa.Function) *fnInfo {
	if fi, ok := i.fninfo[fn]; ok {
		return fi
	}
	fi := &fnInfo{name: fn.String()}
	if fn.Parent() == nil {
		fi.ext = externals[fi.name]
		if fi.ext == nil && fn.Origin() != nil {
			fi.ext = externals[fn.Origin().String()]
		}
	}
	inReflect := fn.Pkg != nil && fn.Pkg.Pkg.Path() == "reflect"
	if o := fn.Origin(); o != nil && o.Pkg != nil && o.Pkg.Pkg.Path() == "reflect" {
		inReflect = true
	}
	if fi.ext == nil && inReflect && fn.Synthetic != "package initializer" {
		// reflection is not interpreted.  Type descriptors (package-level "xType =
		// reflect.TypeFor[X]()" initialisers of library packages) become an opaque nil
		// reflect.Type; every other entry into package reflect ends the path.
		if strings.HasPrefix(fi.name, "reflect.TypeFor[") || fi.name == "reflect.TypeOf" {
			fi.ext = func(fr *frame, a []value) value { return iface{} }
		} else {
			msg := "reflection: " + fi.name
			fi.ext = func(fr *frame, a []value) value { panic(pathEnd{kind: "unsupported", msg: msg}) }
		}
	}
	if fn.Synthetic == "package initializer" && fn.Pkg != nil && !i.initOK(fn.Pkg.Pkg.Path()) {
		fi.skipInit = true
	}
	i.fninfo[fn] = fi
	return fi
}

// callByName calls a package-level function or method of the loaded program.
func (i *interpreter) callByName(fr *frame, name string, args ...value) value {
	fn := i.cfg.FuncByName(name)
	if fn == nil {
		panic(pathEnd{kind: "unsupported", msg: "function not in program: " + name})
	}
	return callSSA(i, fr, token.NoPos, fn, args, nil)
}

const maxDepth = 3000

// callSSA interprets a call to function fn with arguments args,
// and lexical environment env, returning its result.
func callSSA(i *interpreter, caller *frame, callpos token.Pos, fn *ssa.Function, args []value, env []value) value {
	fi := i.info(fn)
	if fi.skipInit {
		return nil
	}
	fr := &frame{
		i:      i,
		caller: caller, // for panic/recover
		fn:     fn,
	}
	if fi.ext != nil {
		i.StubsHit[fi.name]++
		return fi.ext(fr, args)
	}
	if fn.Blocks == nil {
		panic(pathEnd{kind: "unsupported", msg: "no code for function: " + fi.name})
	}
	// generic function body?
	if fn.TypeParams().Len() > 0 && len(fn.TypeArgs()) == 0 {
		panic("interp requires ssa.BuilderMode to include InstantiateGenerics to execute generics")
	}
	savedTop := i.top
	i.top = fr
	defer func() { i.top = savedTop }()
	i.depth++
	if i.depth > i.cfg.MaxDepth {
		i.depth--
		panic(pathEnd{kind: "budget", msg: fmt.Sprintf("recursion depth %d exceeded in %s", i.cfg.MaxDepth, fi.name)})
	}
	defer func() { i.depth-- }()

	fr.env = make(map[ssa.Value]value)
	fr.block = fn.Blocks[0]
	fr.locals = make([]value, len(fn.Locals))
	for k, l := range fn.Locals {
		fr.locals[k] = zero(deref(l.Type()))
		fr.env[l] = &fr.locals[k]
	}
	for k, p := range fn.Params {
		fr.env[p] = args[k]
	}
	for k, fv := range fn.FreeVars {
		fr.env[fv] = env[k]
	}
	for fr.block != nil {
		runFrame(fr)
	}
	// Destroy the locals to avoid accidental use after return.
	for k := range fn.Locals {
		fr.locals[k] = bad{}
	}
	return fr.result
}

// runFrame executes SSA instructions starting at fr.block and
// continuing until a return, a panic, or a recovered panic.
func runFrame(fr *frame) {
	defer func() {
		if fr.block == nil {
			return // normal return
		}
		r := recover()
		if isEngineAbort(r) {
			panic(r)
		}
		fr.panicking = true
		fr.panic = fr.i.classifyPanic(r)
		fr.runDefers()
		fr.block = fr.fn.Recover
		if fr.block == nil {
			// recovered, no named results: return zero values
			fr.result = zeroResults(fr.fn)
		}
	}()

	i := fr.i
	for {
		if fr.visits == nil {
			fr.visits = make([]int32, len(fr.fn.Blocks))
		}
		fr.visits[fr.block.Index]++
		if int(fr.visits[fr.block.Index]) > i.cfg.Unwind {
			panic(pathEnd{kind: "budget", msg: fmt.Sprintf("unwinding bound %d exceeded in %s block %d", i.cfg.Unwind, fr.fn, fr.block.Index)})
		}
		nonPhis := executePhis(fr)
		n := int64(len(nonPhis))
		i.steps += n
		i.FuncInstrs[fr.fn] += n
		if i.steps > i.cfg.MaxSteps {
			panic(pathEnd{kind: "budget", msg: fmt.Sprintf("instruction budget %d exceeded in %s", i.cfg.MaxSteps, fr.fn)})
		}
		for _, instr := range nonPhis {
			if i.cfg.Trace {
				if v, ok := instr.(ssa.Value); ok {
					fmt.Fprintln(i.cfg.TraceW, fr.fn.Name(), "\t", v.Name(), "=", instr)
				} else {
					fmt.Fprintln(i.cfg.TraceW, fr.fn.Name(), "\t", instr)
				}
			}
			fr.cur = instr
			if visitInstr(fr, instr) == kReturn {
				return
			}
			// Inv: kNext (continue) or kJump (last instr)
		}
	}
}

func zeroResults(fn *ssa.Function) value {
	res := fn.Signature.Results()
	switch res.Len() {
	case 0:
		return nil
	case 1:
		return zero(res.At(0).Type())
	}
	t := make(tuple, res.Len())
	for k := range t {
		t[k] = zero(res.At(k).Type())
	}
	return t
}

// executePhis executes the phi-nodes at the start of the current
// block and returns the non-phi instructions.
func executePhis(fr *frame) []ssa.Instruction {
	firstNonPhi := -1
	for i, instr := range fr.block.Instrs {
		if _, ok := instr.(*ssa.Phi); !ok {
			firstNonPhi = i
			break
		}
	}
	nonPhis := fr.block.Instrs[firstNonPhi:]
	if firstNonPhi > 0 {
		phis := fr.block.Instrs[:firstNonPhi]
		predIndex := slices.Index(fr.block.Preds, fr.prevBlock)
		fr.phitemps = fr.phitemps[:0]
		for _, phi := range phis {
			phi := phi.(*ssa.Phi)
			fr.phitemps = append(fr.phitemps, fr.get(phi.Edges[predIndex]))
		}
		for i, phi := range phis {
			fr.env[phi.(*ssa.Phi)] = fr.phitemps[i]
		}
	}
	return nonPhis
}

// doRecover implements the recover() built-in.
func doRecover(caller *frame) value {
	// recover() must be exactly one level beneath the deferred
	// function (two levels beneath the panicking function) to
	// have any effect.
	if caller != nil && !caller.panicking &&
		caller.caller != nil && caller.caller.panicking {
		caller.caller.panicking = false
		p := caller.caller.panic
		caller.caller.panic = nil
		switch p := p.(type) {
		case targetPanic:
			return p.v
		default:
			panic(fmt.Sprintf("unexpected panic type %T in target call to recover()", p))
		}
	}
	return iface{}
}

// callBuiltin interprets a call to builtin fn with arguments args.
func (i *interpreter) callBuiltin(caller *frame, callpos token.Pos, fn *ssa.Builtin, args []value) value {
	switch fn.Name() {
	case "append":
		if len(args) == 1 {
			return args[0]
		}
		var src []value
		switch s := args[1].(type) {
		case string, sstr:
			src = strBytes(s)
		case []value:
			src = s
		}
		et := fn.Type().(*types.Signature).Results().At(0).Type().Underlying().(*types.Slice).Elem()
		return i.appendVals(args[0].([]value), src, et)

	case "copy": // copy([]T, []T) int or copy([]byte, string) int
		var src []value
		switch s := args[1].(type) {
		case string, sstr:
			src = strBytes(s)
		case []value:
			src = s
		}
		dst := args[0].([]value)
		n := len(dst)
		if len(src) < n {
			n = len(src)
		}
		if n > 0 && &dst[0] != &src[0] {
			// memmove semantics
			tmp := make([]value, n)
			for k := 0; k < n; k++ {
				tmp[k] = copyVal(src[k])
			}
			for k := 0; k < n; k++ {
				i.write(&dst[k], tmp[k])
			}
		}
		return n

	case "close": // close(chan T)
		i.chanClose(args[0].(*schan))
		return nil

	case "delete": // delete(map[K]value, K)
		i.mapDelete(args[0].(*omap), args[1])
		return nil

	case "clear":
		switch x := args[0].(type) {
		case *omap:
			if x != nil {
				for k := range x.ents {
					if !x.ents[k].dead {
						i.mapDelete(x, x.ents[k].k)
					}
				}
			}
		case []value:
			et := fn.Type().(*types.Signature).Params().At(0).Type().Underlying().(*types.Slice).Elem()
			for k := range x {
				i.write(&x[k], zero(et))
			}
		}
		return nil

	case "print", "println": // print(any, ...)
		return nil

	case "len":
		switch x := args[0].(type) {
		case string:
			return len(x)
		case sstr:
			return len(x)
		case array:
			return len(x)
		case *value:
			return len((*x).(array))
		case []value:
			return len(x)
		case *omap:
			return x.len()
		case *schan:
			if x == nil {
				return 0
			}
			return len(x.buf)
		default:
			panic(fmt.Sprintf("len: illegal operand: %T", x))
		}

	case "cap":
		switch x := args[0].(type) {
		case array:
			return cap(x)
		case *value:
			return cap((*x).(array))
		case []value:
			return cap(x)
		case *schan:
			if x == nil {
				return 0
			}
			return x.cap
		default:
			panic(fmt.Sprintf("cap: illegal operand: %T", x))
		}

	case "min":
		return foldLeft(func(a, b value) value { return i.minmax(a, b, true) }, args)
	case "max":
		return foldLeft(func(a, b value) value { return i.minmax(a, b, false) }, args)

	case "real", "imag", "complex":
		panic(pathEnd{kind: "unsupported", msg: "complex numbers"})

	case "panic":
		panic(targetPanic{args[0]})

	case "recover":
		return doRecover(caller)

	case "ssa:wrapnilchk":
		recv := args[0]
		if recv.(*value) == nil {
			i.throw(fmt.Sprintf("value method (%s).%s called using nil *%s pointer", args[1], args[2], args[1]))
		}
		return recv

	case "ssa:deferstack":
		return &caller.defers

	case "SliceData":
		return sliceData{args[0].([]value)}
	case "StringData":
		return stringData{args[0]}
	case "String":
		n := int(i.intArg(args[1], "unsafe.String"))
		switch p := args[0].(type) {
		case sliceData:
			return mkstr(p.s[:n])
		case *value:
			if n == 0 {
				return ""
			}
		case stringData:
			return i.slice(p.s, 0, n, nil)
		}
		panic(pathEnd{kind: "unsupported", msg: fmt.Sprintf("unsafe.String(%T)", args[0])})
	case "Slice":
		n := int(i.intArg(args[1], "unsafe.Slice"))
		switch p := args[0].(type) {
		case stringData:
			return strBytes(p.s)[:n]
		case sliceData:
			return p.s[:n]
		case *value:
			if n == 0 {
				return []value(nil)
			}
		}
		panic(pathEnd{kind: "unsupported", msg: fmt.Sprintf("unsafe.Slice(%T)", args[0])})
	}

	panic(pathEnd{kind: "unsupported", msg: "built-in: " + fn.Name()})
}

func (i *interpreter) minmax(x, y value, isMin bool) value {
	if isSym(x) || isSym(y) {
		if isStringish(x) {
			panic(pathEnd{kind: "unsupported", msg: "min/max of symbolic strings"})
		}
		k := kindOf(x)
		if kindFloat(k) {
			panic(pathEnd{kind: "unsupported", msg: "min/max of symbolic floats"})
		}
		var c value
		if isMin {
			c = i.symBinopCmp("<", y, x)
		} else {
			c = i.symBinopCmp(">", y, x)
		}
		return i.val(i.ctx.Ite(i.term(c), i.term(y), i.term(x)), k)
	}
	if isMin {
		return min(x, y)
	}
	return max(x, y)
}

// appendVals implements append with logged in-place writes.
func (i *interpreter) appendVals(dst, src []value, et types.Type) []value {
	if len(src) == 0 {
		return dst
	}
	n := len(dst) + len(src)
	if n <= cap(dst) {
		r := dst[:n]
		for k := range src {
			i.write(&r[len(dst)+k], copyVal(src[k]))
		}
		return r
	}
	nc := 2 * cap(dst)
	if nc < n {
		nc = n
	}
	if nc < 4 {
		nc = 4
	}
	r := make([]value, n, nc)
	copy(r, dst)
	for k := range src {
		r[len(dst)+k] = copyVal(src[k])
	}
	full := r[:nc]
	for k := n; k < nc; k++ {
		full[k] = zero(et)
	}
	return r
}

type stringIter struct {
	s   value
	pos int
}

func (it *stringIter) next(fr *frame) tuple {
	n := strLen(it.s)
	if it.pos >= n {
		return tuple{false, nil, nil}
	}
	i := fr.i
	switch s := it.s.(type) {
	case string:
		// fast path: concrete
		for k, r := range s[it.pos:] {
			_ = k
			sz := len(string(r))
			if r == 0xFFFD {
				// may be an invalid byte (width 1) or a real U+FFFD (width 3)
				if !(it.pos+2 < n && s[it.pos] == 0xEF && s[it.pos+1] == 0xBF && s[it.pos+2] == 0xBD) {
					sz = 1
				}
			}
			p := it.pos
			it.pos += sz
			return tuple{true, p, r}
		}
	}
	rest := i.slice(it.s, it.pos, nil, nil)
	t := i.callByName(fr, "unicode/utf8.DecodeRuneInString", rest).(tuple)
	p := it.pos
	it.pos += int(asInt64(t[1]))
	return tuple{true, p, t[0]}
}

func (i *interpreter) rangeIter(x value, t types.Type) iter {
	switch x := x.(type) {
	case *omap:
		return i.newMapIter(x)
	case string, sstr:
		return &stringIter{s: x}
	}
	panic(fmt.Sprintf("cannot range over %T", x))
}
