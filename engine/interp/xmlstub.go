package interp

// encoding/xml.Unmarshal is reflection driven.  For CONCRETE input bytes and a target of
// the generic element shape {XMLName; []xml.Attr ",any,attr"; string ",chardata";
// []*self ",any"} (the shape data/encoding uses) the documented result is computed
// natively into a mirror type and converted to engine values.  Any other target type
// ends the path as unsupported, so a change of the repository's struct is noticed.

import (
	"encoding/xml"
	"go/types"
)

type xmlMirror struct {
	XMLName  xml.Name
	XMLAttr  []xml.Attr   `xml:",any,attr"`
	Chardata string       `xml:",chardata"`
	Children []*xmlMirror `xml:",any"`
}

func xmlMirrorShape(t types.Type) bool {
	st, ok := t.Underlying().(*types.Struct)
	if !ok || st.NumFields() != 4 {
		return false
	}
	want := []struct{ typ, tag string }{
		{"encoding/xml.Name", ""},
		{"[]encoding/xml.Attr", `xml:",any,attr"`},
		{"string", `xml:",chardata"`},
		{"", `xml:",any"`},
	}
	for k, w := range want {
		f := st.Field(k)
		if st.Tag(k) != w.tag {
			return false
		}
		if k == 0 && f.Name() != "XMLName" {
			return false
		}
		if w.typ != "" && f.Type().String() != w.typ {
			return false
		}
		if k == 3 {
			sl, ok := f.Type().(*types.Slice)
			if !ok {
				return false
			}
			pt, ok := sl.Elem().(*types.Pointer)
			if !ok || !types.Identical(pt.Elem(), t) {
				return false
			}
		}
	}
	return true
}

func xmlNameVal(n xml.Name) value { return structure{n.Space, n.Local} }

func xmlMirrorToEngine(m *xmlMirror) structure {
	var attrs []value
	for _, a := range m.XMLAttr {
		attrs = append(attrs, structure{xmlNameVal(a.Name), a.Value})
	}
	var kids []value
	for _, c := range m.Children {
		p := new(value)
		*p = xmlMirrorToEngine(c)
		kids = append(kids, p)
	}
	return structure{xmlNameVal(m.XMLName), attrs, m.Chardata, kids}
}

func init() {
	externals["encoding/xml.Unmarshal"] = func(fr *frame, a []value) value {
		i := fr.i
		data, ok := concreteBytes(a[0])
		if !ok {
			panic(pathEnd{kind: "unsupported", msg: "xml.Unmarshal of symbolic bytes"})
		}
		target := a[1].(iface)
		p, isPtr := target.v.(*value)
		pt, okT := target.t.Underlying().(*types.Pointer)
		if !isPtr || p == nil || !okT || !xmlMirrorShape(pt.Elem()) {
			panic(pathEnd{kind: "unsupported", msg: "xml.Unmarshal into a type other than the generic element struct"})
		}
		var m xmlMirror
		if err := xml.Unmarshal(data, &m); err != nil {
			return i.callByName(fr, "errors.New", err.Error())
		}
		i.write(p, xmlMirrorToEngine(&m))
		return iface{}
	}
}
