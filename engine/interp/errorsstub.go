package interp

// errors.Is / errors.As use reflectlite for a comparability / assignability test; the
// rest of their definition (Is / As methods, Unwrap() error, Unwrap() []error) is
// reproduced here over engine values with go/types standing in for reflectlite.

import (
	"go/types"

	"golang.org/x/tools/go/ssa"
)

func (i *interpreter) methodNamed(t types.Type, name string) (*ssa.Function, *types.Signature) {
	ms := i.prog.MethodSets.MethodSet(t)
	for k := 0; k < ms.Len(); k++ {
		sel := ms.At(k)
		if sel.Obj().Name() == name && sel.Obj().Exported() {
			return i.prog.MethodValue(sel), sel.Type().(*types.Signature)
		}
	}
	return nil, nil
}

func isErrorType(t types.Type) bool { return types.Identical(t, errorInterface) || t.String() == "error" }

func (i *interpreter) errIs(fr *frame, err, target iface, depth int) bool {
	if depth > 100 {
		panic(pathEnd{kind: "unsupported", msg: "errors.Is: error chain deeper than 100"})
	}
	for err.t != nil {
		if types.Comparable(target.t) && types.Identical(err.t, target.t) && i.truth(i.equals(nil, err, target)) {
			return true
		}
		if m, sig := i.methodNamed(err.t, "Is"); m != nil && sig.Params().Len() == 1 && sig.Results().Len() == 1 && isErrorType(sig.Params().At(0).Type()) {
			if r, ok := call(i, fr, 0, m, []value{err.v, target}).(bool); ok && r {
				return true
			}
		}
		m, sig := i.methodNamed(err.t, "Unwrap")
		if m == nil || sig.Params().Len() != 0 || sig.Results().Len() != 1 {
			return false
		}
		res := call(i, fr, 0, m, []value{err.v})
		switch r := res.(type) {
		case iface:
			err = r
		case []value:
			for _, e := range r {
				if e.(iface).t != nil && i.errIs(fr, e.(iface), target, depth+1) {
					return true
				}
			}
			return false
		default:
			return false
		}
	}
	return false
}

func (i *interpreter) errAs(fr *frame, err iface, target iface, elem types.Type, depth int) bool {
	if depth > 100 {
		panic(pathEnd{kind: "unsupported", msg: "errors.As: error chain deeper than 100"})
	}
	for err.t != nil {
		assignable := false
		if it, ok := elem.Underlying().(*types.Interface); ok {
			assignable = types.Implements(err.t, it)
		} else {
			assignable = types.Identical(err.t, elem)
		}
		if assignable {
			p := target.v.(*value)
			if _, ok := elem.Underlying().(*types.Interface); ok {
				i.write(p, err)
			} else {
				i.write(p, err.v)
			}
			return true
		}
		if m, sig := i.methodNamed(err.t, "As"); m != nil && sig.Params().Len() == 1 && sig.Results().Len() == 1 {
			if r, ok := call(i, fr, 0, m, []value{err.v, target}).(bool); ok && r {
				return true
			}
		}
		m, sig := i.methodNamed(err.t, "Unwrap")
		if m == nil || sig.Params().Len() != 0 || sig.Results().Len() != 1 {
			return false
		}
		res := call(i, fr, 0, m, []value{err.v})
		switch r := res.(type) {
		case iface:
			err = r
		case []value:
			for _, e := range r {
				if e.(iface).t != nil && i.errAs(fr, e.(iface), target, elem, depth+1) {
					return true
				}
			}
			return false
		default:
			return false
		}
	}
	return false
}

func init() {
	externals["errors.Is"] = func(fr *frame, a []value) value {
		err, target := a[0].(iface), a[1].(iface)
		if err.t == nil || target.t == nil {
			return err.t == nil && target.t == nil
		}
		return fr.i.errIs(fr, err, target, 0)
	}
	externals["errors.As"] = func(fr *frame, a []value) value {
		i := fr.i
		err, target := a[0].(iface), a[1].(iface)
		if err.t == nil {
			return false
		}
		pt, ok := func() (*types.Pointer, bool) {
			if target.t == nil {
				return nil, false
			}
			p, ok := target.t.Underlying().(*types.Pointer)
			return p, ok
		}()
		if !ok {
			panic(targetPanic{iface{i.runtimeErrorString, "errors: target must be a non-nil pointer"}})
		}
		if p, isP := target.v.(*value); !isP || p == nil {
			panic(targetPanic{iface{i.runtimeErrorString, "errors: target cannot be nil"}})
		}
		return i.errAs(fr, err, target, pt.Elem(), 0)
	}
}

// maps.clone (runtime linkname): a shallow copy of the map.
func init() {
	externals["maps.clone"] = func(fr *frame, a []value) value {
		in := a[0].(iface)
		m, ok := in.v.(*omap)
		if !ok || m == nil {
			return in
		}
		c := makeMap(m.keyT)
		for _, e := range m.ents {
			if !e.dead {
				fr.i.mapInsert(c, e.k, copyVal(e.v))
			}
		}
		return iface{in.t, c}
	}
}
