package interp

// Environment stubs: the file system, plug-ins, logging and the clock.

// extSortSlice: sort.Slice / sort.SliceStable (the real ones need reflection for the
// swapper): a stable insertion sort driven by the target's less function.
func extSortSlice(fr *frame, a []value) value {
	i := fr.i
	x := a[0].(iface)
	sl, ok := x.v.([]value)
	if !ok {
		panic(pathEnd{kind: "unsupported", msg: "sort.Slice of a non-slice"})
	}
	less := a[1]
	for k := 1; k < len(sl); k++ {
		for j := k; j > 0; j-- {
			r := call(i, fr, 0, less, []value{j, j - 1})
			if !i.truth(r) {
				break
			}
			tmp := sl[j]
			i.write(&sl[j], sl[j-1])
			i.write(&sl[j-1], tmp)
		}
	}
	return nil
}

func registerEnv() {
	externals["sort.Slice"] = extSortSlice
	externals["sort.SliceStable"] = extSortSlice
	errOf := func(fr *frame, msg string) value { return fr.i.callByName(fr, "errors.New", msg) }
	externals["os.Open"] = func(fr *frame, a []value) value {
		return tuple{(*value)(nil), errOf(fr, "open: no such file or directory (stub)")}
	}
	externals["os.Stat"] = func(fr *frame, a []value) value {
		return tuple{iface{}, errOf(fr, "stat: no such file or directory (stub)")}
	}
	externals["os.ReadFile"] = func(fr *frame, a []value) value {
		return tuple{[]value(nil), errOf(fr, "read: no such file or directory (stub)")}
	}
	externals["io/ioutil.ReadFile"] = externals["os.ReadFile"]
	externals["os.ReadDir"] = func(fr *frame, a []value) value {
		return tuple{[]value(nil), errOf(fr, "readdir: no such file or directory (stub)")}
	}
	externals["io/ioutil.ReadDir"] = externals["os.ReadDir"]
	externals["plugin.Open"] = func(fr *frame, a []value) value {
		return tuple{(*value)(nil), errOf(fr, "plugin.Open: not available (stub)")}
	}
	externals["path/filepath.Glob"] = func(fr *frame, a []value) value {
		return tuple{[]value(nil), iface{}}
	}
	for _, n := range []string{
		"log.Printf", "log.Println", "log.Print",
		"(*log.Logger).Printf", "(*log.Logger).Println", "(*log.Logger).Print", "(*log.Logger).Output",
		"github.com/sirupsen/logrus.Debugf", "github.com/sirupsen/logrus.Debug", "github.com/sirupsen/logrus.Infof",
		"github.com/sirupsen/logrus.Info", "github.com/sirupsen/logrus.Warnf", "github.com/sirupsen/logrus.Warn",
		"github.com/sirupsen/logrus.Errorf", "github.com/sirupsen/logrus.Error", "github.com/sirupsen/logrus.Tracef",
		"github.com/sirupsen/logrus.Trace", "github.com/sirupsen/logrus.Warningf", "github.com/sirupsen/logrus.Warning",
		"github.com/sirupsen/logrus.Debugln", "github.com/sirupsen/logrus.Infoln", "github.com/sirupsen/logrus.Errorln",
	} {
		externals[n] = func(fr *frame, a []value) value { return nil }
	}
	externals["log/syslog.NewLogger"] = func(fr *frame, a []value) value {
		return tuple{(*value)(nil), errOf(fr, "syslog: not available (stub)")}
	}
	externals["log.New"] = func(fr *frame, a []value) value {
		var cell value = structure{}
		return &cell
	}
	externals["log.Fatalf"] = func(fr *frame, a []value) value {
		panic(pathEnd{kind: "panic", msg: "log.Fatalf called"})
	}
	externals["log.Fatal"] = externals["log.Fatalf"]
	externals["github.com/sirupsen/logrus.Fatalf"] = externals["log.Fatalf"]
	externals["github.com/sirupsen/logrus.Fatal"] = externals["log.Fatalf"]
}
