package interp

import (
	"fmt"
	"reflect"
	"go/token"
	"go/types"
	"io"
	"sort"
	"strings"
	"time"

	"golang.org/x/tools/go/ssa"

	"gosx/smt"
)

// Config is shared (read-only) by all workers of one exploration.
type Config struct {
	Prog       *ssa.Program
	Sizes      types.Sizes
	InitOK     func(pkgPath string) bool
	FuncByName func(name string) *ssa.Function
	InitPkgs   []*ssa.Package // initialised (in order) before every exploration
	Solver     string
	TimeoutMs  int
	MaxSteps   int64
	MaxDepth   int
	Unwind     int
	Debug      bool
	Trace      bool
	TraceW     io.Writer
	OpenKF     map[string]bool // known-finding classes that are open
	Params     map[string]int  // harness parameters (bounds)
	MaxConcretise int
	NoSlicing     bool
}

// Decision is one recorded choice point of a path.
type Decision struct {
	Kind  byte   // 'b' branch, 'c' concretise/choice
	Alt   int    // 'b': 0 = condition true, 1 = false
	Val   uint64 // 'c': chosen value
	Arity int
	Site  int // source position of the deciding instruction (replay divergence guard)
}

type WorkItem struct {
	Prefix []Decision
	Model  smt.Model // a model of the path condition after the prefix (may be nil)
}

type Obligation struct {
	ID      string
	Verdict string // "discharged", "violated", "undecided", "known"
	Model   smt.Model
	KF      []string // known-finding classes this violation falls in
	TimeMs  int64
	Site    string
}

type Observation struct {
	Key string
	Val string
}

// PathResult is what one executed path reports to the driver.
type PathResult struct {
	Decisions   []Decision
	End         string // pathEnd.kind
	Msg         string
	Obligations []Obligation
	Observed    []obsRec
	ObservedCanon []string
	Reached     []string
	Model       smt.Model // a model of the final path condition (when requested / available)
	NewWork     []WorkItem
	Steps       int64
	Vars        []string
	KFSeen      map[string]smt.Model
	ClassTrue   []string // open classes true in Model (abnormal ends)
	Assumed     []string
	Unknowns    int
	OpaqueFormats int
	PCSize      int
}

type obsRec struct {
	key  string
	vals []value
}

type pathState struct {
	prefix   []Decision
	trail    []Decision
	pc       []*smt.Term
	model    smt.Model // satisfies pc when non-nil
	vars     []*smt.Term
	varSet   map[string]bool
	res      *PathResult
	classes  map[string]*smt.Term
	classOrd []string
	fresh    int
	choiceN  map[string]int
	ev       *smt.Evaluator
	pcSet    map[int]bool
	pcSupp   []*suppInfo
	evFor    smt.Model
}

func NewWorker(cfg *Config) (*Worker, error) {
	i := &interpreter{
		prog:       cfg.Prog,
		globals:    make(map[*ssa.Global]*value),
		sizes:      cfg.Sizes,
		ctx:        smt.NewCtx(),
		tables:     map[tabKey]*smt.Table{},
		fninfo:     map[*ssa.Function]*fnInfo{},
		initOK:     cfg.InitOK,
		cfg:        cfg,
		FuncInstrs: map[*ssa.Function]int64{},
		StubsHit:   map[string]int64{},
		supp:       map[int]*suppInfo{},
		varIdx:     map[string]int{},
	}
	runtimePkg := cfg.Prog.ImportedPackage("runtime")
	if runtimePkg == nil {
		return nil, fmt.Errorf("ssa.Program doesn't include runtime package")
	}
	i.runtimeErrorString = runtimePkg.Type("errorString").Object().Type()
	sess, err := smt.NewSession(i.ctx, cfg.Solver, cfg.TimeoutMs)
	if err != nil {
		return nil, err
	}
	i.sess = sess
	w := &Worker{i: i}
	// concrete initialisation (no decisions may occur)
	for _, pkg := range cfg.InitPkgs {
		res := w.run(pkg.Func("init"), WorkItem{}, true)
		if res.End != "done" {
			return nil, fmt.Errorf("init of %s: %s: %s", pkg.Pkg.Path(), res.End, res.Msg)
		}
	}
	i.undo = nil // initialisation is permanent
	return w, nil
}

type Worker struct {
	i *interpreter
}

func (w *Worker) Close()                           { w.i.sess.Close() }
func (w *Worker) SolverStats() (int, int64, int)   { return w.i.sess.Queries, w.i.sess.SolverNs, w.i.sess.Errors }
func (w *Worker) FuncInstrs() map[*ssa.Function]int64 { return w.i.FuncInstrs }
func (w *Worker) StubsHit() map[string]int64       { return w.i.StubsHit }

// Run executes one path of entry following item.Prefix.
func (w *Worker) Run(entry *ssa.Function, item WorkItem) *PathResult {
	return w.run(entry, item, false)
}

func (w *Worker) run(entry *ssa.Function, item WorkItem, isInit bool) *PathResult {
	i := w.i
	res := &PathResult{KFSeen: map[string]smt.Model{}}
	i.path = &pathState{prefix: item.Prefix, res: res, varSet: map[string]bool{}, classes: map[string]*smt.Term{}, choiceN: map[string]int{}}
	if len(item.Prefix) == 0 {
		i.path.model = smt.Model{}
	} else {
		i.path.model = item.Model
	}
	i.steps = 0
	i.depth = 0
	i.mapOrder = OrderInsertion
	i.frozen, i.frozenMaps, i.frozenWrites = nil, nil, nil
	i.lockAccs = nil
	i.aborting = false
	i.held = nil
	i.jsonDecoders = nil
	i.waitGroups = nil
	i.pools = nil
	i.maxConcOverride = 0
	i.done = make(chan pathEnd, 64)
	g0 := &goroutine{id: 0, wake: make(chan struct{}, 1), state: gRunnable, started: true, desc: "main"}
	i.gs = []*goroutine{g0}
	i.cur = g0
	i.wg.Add(1)
	go func() {
		defer i.wg.Done()
		defer func() {
			r := recover()
			switch r := r.(type) {
			case nil:
				i.done <- pathEnd{kind: "done"}
			case abortPath:
			case pathEnd:
				i.done <- r
			case targetPanic:
				i.done <- pathEnd{kind: "panic", msg: i.panicText(r)}
			default:
				i.done <- pathEnd{kind: "engine-error", msg: fmt.Sprintf("%v @ %s", r, shortStack())}
			}
		}()
		call(i, nil, token.NoPos, entry, nil)
	}()
	end := <-i.done
	// stop every parked goroutine
	i.aborting = true
	for _, g := range i.gs {
		select {
		case g.wake <- struct{}{}:
		default:
		}
	}
	i.wg.Wait()
	res.End, res.Msg = end.kind, end.msg
	res.Decisions = i.path.trail
	res.Steps = i.steps
	for _, v := range i.path.vars {
		res.Vars = append(res.Vars, v.Name)
	}
	res.PCSize = len(i.path.pc)
	if !isInit {
		if i.path.model == nil && (res.End == "done" || res.End == "panic" || res.End == "budget" || res.End == "deadlock") {
			// need a model for differential validation: ask once
			r, m := i.sess.Check(i.path.pc, i.path.vars)
			if r == smt.Sat {
				i.path.model = m
			}
		}
		res.Model = i.path.model
		if res.Model != nil {
			func() {
				defer func() {
					if r := recover(); r != nil {
						res.ObservedCanon = nil
					}
				}()
				res.ObservedCanon = i.canonObserved(res.Observed, res.Model)
			}()
		}
		res.Observed = nil
		if res.End != "done" && res.Model != nil {
			ev := smt.NewEvaluator(i.ctx, res.Model)
			for _, name := range i.path.classOrd {
				if i.cfg.OpenKF[name] && !hasUF(i.path.classes[name]) && ev.Eval(i.path.classes[name]) == 1 {
					res.ClassTrue = append(res.ClassTrue, name)
				}
			}
		}
		i.rollback()
	}
	return res
}

func (i *interpreter) panicText(p targetPanic) string {
	switch v := p.v.(type) {
	case iface:
		if v.t == nil {
			return "panic(nil)"
		}
		if s, ok := v.v.(string); ok {
			return fmt.Sprintf("%s: %s", v.t, s)
		}
		// error / Stringer values: try Error()
		if m := i.prog.LookupMethod(v.t, nil, "Error"); m != nil {
			func() {
				defer func() { recover() }()
			}()
		}
		return fmt.Sprintf("%s: %s", v.t, toString(v.v))
	}
	return toString(p.v)
}

// ------------------------------------------------------------------ decisions

func (i *interpreter) addPC(t *smt.Term) {
	if t.IsConst() {
		return
	}
	p := i.path
	if p.pcSet == nil {
		p.pcSet = map[int]bool{}
	}
	if p.pcSet[t.ID] {
		return
	}
	p.pcSet[t.ID] = true
	p.pc = append(p.pc, t)
	// conjuncts of a conjunction are facts too (cheap syntactic implication)
	if t.Op == smt.OAnd {
		for _, a := range t.Args {
			p.pcSet[a.ID] = true
		}
	}
}

func (i *interpreter) evalModel(t *smt.Term) (bool, bool) {
	if i.path.model == nil {
		return false, false
	}
	if hasUF(t) {
		return false, false
	}
	return i.evaluator().Eval(t) == 1, true
}

// evaluator returns a (memoising) evaluator for the current path model.
func (i *interpreter) evaluator() *smt.Evaluator {
	p := i.path
	if p.ev == nil || !sameModel(p.evFor, p.model) {
		p.ev = smt.NewEvaluator(i.ctx, p.model)
		p.evFor = p.model
	}
	return p.ev
}

func sameModel(a, b smt.Model) bool {
	if a == nil || b == nil {
		return false
	}
	return reflect.ValueOf(a).Pointer() == reflect.ValueOf(b).Pointer()
}

var ufMemo = map[*smt.Term]bool{}

func hasUF(t *smt.Term) bool {
	// small recursive scan with memo on the term itself (terms are per-ctx; the memo is
	// only read/written by the owning worker because terms are not shared)
	seen := map[int]bool{}
	var rec func(t *smt.Term) bool
	rec = func(t *smt.Term) bool {
		if seen[t.ID] {
			return false
		}
		seen[t.ID] = true
		if t.Op == smt.OUF {
			return true
		}
		for _, a := range t.Args {
			if rec(a) {
				return true
			}
		}
		return false
	}
	return rec(t)
}

func (i *interpreter) site() int {
	if i.top != nil && i.top.cur != nil {
		return int(i.top.cur.Pos())
	}
	return 0
}

// decide returns the truth value of a symbolic condition on this path, forking the
// exploration when both outcomes are feasible.
func (i *interpreter) decide(c *smt.Term) bool {
	if c.IsConst() {
		return c.Val == 1
	}
	p := i.path
	// syntactically implied by the path condition: no decision at all (checked before
	// the replay test so that replayed paths skip exactly the same decisions)
	if p.pcSet[c.ID] {
		return true
	}
	if p.pcSet[i.ctx.Not(c).ID] {
		return false
	}
	k := len(p.trail)
	if k < len(p.prefix) {
		d := p.prefix[k]
		if d.Kind != 'b' || d.Site != i.site() {
			panic(pathEnd{kind: "engine-error", msg: fmt.Sprintf("replay divergence at decision %d: recorded kind %c site %d, now branch at site %d", k, d.Kind, d.Site, i.site())})
		}
		p.trail = append(p.trail, d)
		if d.Alt == 0 {
			i.addPC(c)
		} else {
			i.addPC(i.ctx.Not(c))
		}
		if k == len(p.prefix)-1 {
			// the model that justified this alternative arrives with the work item
		}
		return d.Alt == 0
	}
	nc := i.ctx.Not(c)
	// which side does the current model take?
	mv, ok := i.evalModel(c)
	var tFeas, fFeas smt.Result = smt.Unknown, smt.Unknown
	var tModel, fModel smt.Model
	if ok {
		if mv {
			tFeas, tModel = smt.Sat, p.model
		} else {
			fFeas, fModel = smt.Sat, p.model
		}
	}
	if tFeas != smt.Sat {
		tFeas, tModel = i.query(c)
		if tFeas == smt.Unknown {
			p.res.Unknowns++
		}
	}
	if fFeas != smt.Sat {
		if tFeas == smt.Unsat {
			fFeas, fModel = smt.Sat, p.model // pc is satisfiable, so the other side is
			if p.model != nil {
				if v, ok := i.evalModel(nc); !ok || !v {
					fModel = nil
				}
			}
		} else {
			fFeas, fModel = i.query(nc)
			if fFeas == smt.Unknown {
				p.res.Unknowns++
			}
		}
	}
	tOK := tFeas != smt.Unsat
	fOK := fFeas != smt.Unsat
	switch {
	case tOK && fOK:
		// take true now, queue false
		pre := append(append([]Decision(nil), p.trail...), Decision{Kind: 'b', Alt: 1, Arity: 2, Site: i.site()})
		p.res.NewWork = append(p.res.NewWork, WorkItem{Prefix: pre, Model: fModel})
		p.trail = append(p.trail, Decision{Kind: 'b', Alt: 0, Arity: 2, Site: i.site()})
		i.addPC(c)
		p.model = tModel
		return true
	case tOK:
		p.trail = append(p.trail, Decision{Kind: 'b', Alt: 0, Arity: 1, Site: i.site()})
		i.addPC(c)
		p.model = tModel
		return true
	case fOK:
		p.trail = append(p.trail, Decision{Kind: 'b', Alt: 1, Arity: 1, Site: i.site()})
		i.addPC(nc)
		p.model = fModel
		return false
	}
	panic(pathEnd{kind: "infeasible", msg: "path condition became unsatisfiable"})
}

// concretiseTerm forks over the feasible values of t (at most cfg.MaxConcretise).
func (i *interpreter) concretiseTerm(t *smt.Term, what string) uint64 {
	if t.IsConst() {
		return t.Val
	}
	p := i.path
	k := len(p.trail)
	w := t.S.W
	eqv := func(v uint64) *smt.Term {
		if t.S.K == smt.SBool {
			if v == 1 {
				return t
			}
			return i.ctx.Not(t)
		}
		return i.ctx.Eq(t, i.ctx.BVConst(w, v))
	}
	if k < len(p.prefix) {
		d := p.prefix[k]
		if d.Kind != 'c' || d.Site != i.site() {
			panic(pathEnd{kind: "engine-error", msg: fmt.Sprintf("replay divergence at decision %d: recorded kind %c site %d, now concretise(%s) at site %d", k, d.Kind, d.Site, what, i.site())})
		}
		p.trail = append(p.trail, d)
		i.addPC(eqv(d.Val))
		return d.Val
	}
	max := i.cfg.MaxConcretise
	if i.maxConcOverride > max {
		max = i.maxConcOverride
	}
	var vals []uint64
	var models []smt.Model
	var excl []*smt.Term
	// first candidate from the current model
	if p.model != nil && !hasUF(t) {
		v := i.evaluator().Eval(t)
		vals = append(vals, v)
		models = append(models, p.model)
		excl = append(excl, i.ctx.Not(eqv(v)))
	}
	for {
		r, m := i.query(excl...)
		if r == smt.Unknown {
			p.res.Unknowns++
			panic(pathEnd{kind: "unsupported", msg: "solver undecided while concretising " + what})
		}
		if r == smt.Unsat {
			break
		}
		v := smt.NewEvaluator(i.ctx, m).Eval(t)
		if hasUF(t) {
			panic(pathEnd{kind: "unsupported", msg: "concretising a term with uninterpreted functions: " + what})
		}
		vals = append(vals, v)
		models = append(models, m)
		excl = append(excl, i.ctx.Not(eqv(v)))
		if len(vals) > max {
			panic(pathEnd{kind: "unsupported", msg: fmt.Sprintf("more than %d feasible values for symbolic %s", max, what)})
		}
	}
	if len(vals) == 0 {
		panic(pathEnd{kind: "infeasible", msg: "path condition became unsatisfiable"})
	}
	// deterministic order
	idx := make([]int, len(vals))
	for j := range idx {
		idx[j] = j
	}
	sort.Slice(idx, func(a, b int) bool { return vals[idx[a]] < vals[idx[b]] })
	for _, j := range idx[1:] {
		pre := append(append([]Decision(nil), p.trail...), Decision{Kind: 'c', Val: vals[j], Arity: len(vals), Site: i.site()})
		p.res.NewWork = append(p.res.NewWork, WorkItem{Prefix: pre, Model: models[j]})
	}
	j := idx[0]
	p.trail = append(p.trail, Decision{Kind: 'c', Val: vals[j], Arity: len(vals), Site: i.site()})
	i.addPC(eqv(vals[j]))
	p.model = models[j]
	return vals[j]
}

func freeVars(t *smt.Term) []*smt.Term {
	var out []*smt.Term
	seen := map[int]bool{}
	var rec func(t *smt.Term)
	rec = func(t *smt.Term) {
		if seen[t.ID] {
			return
		}
		seen[t.ID] = true
		if t.Op == smt.OVar {
			out = append(out, t)
		}
		for _, a := range t.Args {
			rec(a)
		}
	}
	rec(t)
	return out
}

// assume adds c to the path condition; the path ends silently when it is infeasible.
func (i *interpreter) assume(c *smt.Term) {
	if c.IsConst() {
		if c.Val == 0 {
			panic(pathEnd{kind: "assume-false"})
		}
		return
	}
	p := i.path
	if k := len(p.trail); k < len(p.prefix) {
		// inside the replayed prefix feasibility is already known
		i.addPC(c)
		return
	}
	if v, ok := i.evalModel(c); ok && v {
		i.addPC(c)
		return
	}
	r, m := i.query(c)
	switch r {
	case smt.Unsat:
		panic(pathEnd{kind: "assume-false"})
	case smt.Unknown:
		p.res.Unknowns++
		p.model = nil
	default:
		p.model = m
	}
	i.addPC(c)
}

// newVar introduces (or re-uses) a named input variable.
func (i *interpreter) newVar(name string, s smt.Sort) *smt.Term {
	v := i.ctx.Var(name, s)
	p := i.path
	if !p.varSet[name] {
		p.varSet[name] = true
		p.vars = append(p.vars, v)
	}
	return v
}

// assert checks an obligation: is there an input on this path violating c?
func (i *interpreter) assert(c value, id string, site string) {
	p := i.path
	t0 := time.Now()
	ob := Obligation{ID: id, Site: site}
	defer func() {
		ob.TimeMs = time.Since(t0).Milliseconds()
		p.res.Obligations = append(p.res.Obligations, ob)
	}()
	ct := i.term(c)
	if len(p.trail) < len(p.prefix) {
		// replaying: this obligation was decided by the path that created the prefix
		ob.Verdict = "replayed"
		i.addPC(ct)
		return
	}
	if ct.IsConst() && ct.Val == 1 {
		ob.Verdict = "discharged"
		return
	}
	neg := i.ctx.Not(ct)
	// open known-finding classes registered so far on this path
	var open []string
	for _, name := range p.classOrd {
		if i.cfg.OpenKF[name] {
			open = append(open, name)
		}
	}
	q := []*smt.Term{neg}
	for _, name := range open {
		q = append(q, i.ctx.Not(p.classes[name]))
	}
	r, m := i.query(q...)
	switch r {
	case smt.Sat:
		ob.Verdict = "violated"
		ob.Model = m
	case smt.Unknown:
		ob.Verdict = "undecided"
		p.res.Unknowns++
	default:
		ob.Verdict = "discharged"
	}
	for _, name := range open {
		r, m := i.query(neg, p.classes[name])
		if r == smt.Sat {
			ob.KF = append(ob.KF, name)
			if _, ok := p.res.KFSeen[name]; !ok {
				p.res.KFSeen[name] = m
			}
		} else if r == smt.Unknown {
			p.res.Unknowns++
			if ob.Verdict == "discharged" {
				ob.Verdict = "undecided"
			}
		}
	}
	// continue on the side where the assertion holds
	i.assume(ct)
}

func describePos(prog *ssa.Program, pos token.Pos) string {
	if pos == token.NoPos {
		return ""
	}
	p := prog.Fset.Position(pos)
	f := p.Filename
	if k := strings.LastIndex(f, "/"); k >= 0 {
		f = f[k+1:]
	}
	return fmt.Sprintf("%s:%d", f, p.Line)
}
