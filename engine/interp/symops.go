package interp

// Symbolic counterparts of the interpreter's operators.  Concrete operands are
// handled by the original (native) code in ops.go; as soon as one operand is symbolic
// an SMT term is built.  Run-time panics are raised explicitly as target panics.

import (
	"fmt"
	"go/token"
	"go/types"
	"math"
	"unsafe"

	"golang.org/x/tools/go/ssa"

	"gosx/smt"
)

func kindOf(v value) types.BasicKind {
	switch v := v.(type) {
	case sym:
		return v.k
	case bool:
		return types.Bool
	case int:
		return types.Int
	case int8:
		return types.Int8
	case int16:
		return types.Int16
	case int32:
		return types.Int32
	case int64:
		return types.Int64
	case uint:
		return types.Uint
	case uint8:
		return types.Uint8
	case uint16:
		return types.Uint16
	case uint32:
		return types.Uint32
	case uint64:
		return types.Uint64
	case uintptr:
		return types.Uintptr
	case float32:
		return types.Float32
	case float64:
		return types.Float64
	}
	panic(fmt.Sprintf("kindOf: not a scalar: %T", v))
}

func kindWidth(k types.BasicKind) int {
	switch k {
	case types.Bool:
		return 1
	case types.Int8, types.Uint8:
		return 8
	case types.Int16, types.Uint16:
		return 16
	case types.Int32, types.Uint32, types.Float32:
		return 32
	}
	return 64
}

func kindSigned(k types.BasicKind) bool {
	switch k {
	case types.Int, types.Int8, types.Int16, types.Int32, types.Int64:
		return true
	}
	return false
}

func kindFloat(k types.BasicKind) bool { return k == types.Float32 || k == types.Float64 }
func kindInt(k types.BasicKind) bool   { return k != types.Bool && !kindFloat(k) }

func basicKind(t types.Type) types.BasicKind {
	b, ok := t.Underlying().(*types.Basic)
	if !ok {
		panic(fmt.Sprintf("basicKind: %s", t))
	}
	k := b.Kind()
	switch k {
	case types.UntypedBool:
		return types.Bool
	case types.UntypedInt:
		return types.Int
	case types.UntypedRune:
		return types.Int32
	case types.UntypedFloat:
		return types.Float64
	}
	return k
}

func sortOfKind(k types.BasicKind) smt.Sort {
	switch {
	case k == types.Bool:
		return smt.Bool
	case kindFloat(k):
		return smt.FP(kindWidth(k))
	}
	return smt.BV(kindWidth(k))
}

// term converts a scalar value to a term.
func (i *interpreter) term(v value) *smt.Term {
	c := i.ctx
	switch v := v.(type) {
	case sym:
		return v.t
	case bool:
		return c.BoolConst(v)
	case float32:
		return c.FPConst32(v)
	case float64:
		return c.FPConst64(v)
	case int:
		return c.BVConst(64, uint64(v))
	case int8:
		return c.BVConst(8, uint64(v))
	case int16:
		return c.BVConst(16, uint64(v))
	case int32:
		return c.BVConst(32, uint64(v))
	case int64:
		return c.BVConst(64, uint64(v))
	case uint:
		return c.BVConst(64, uint64(v))
	case uint8:
		return c.BVConst(8, uint64(v))
	case uint16:
		return c.BVConst(16, uint64(v))
	case uint32:
		return c.BVConst(32, uint64(v))
	case uint64:
		return c.BVConst(64, v)
	case uintptr:
		return c.BVConst(64, uint64(v))
	}
	panic(fmt.Sprintf("term: not a scalar: %T", v))
}

func concreteOfKind(k types.BasicKind, bits uint64) value {
	switch k {
	case types.Bool:
		return bits != 0
	case types.Int:
		return int(bits)
	case types.Int8:
		return int8(bits)
	case types.Int16:
		return int16(bits)
	case types.Int32:
		return int32(bits)
	case types.Int64:
		return int64(bits)
	case types.Uint:
		return uint(bits)
	case types.Uint8:
		return uint8(bits)
	case types.Uint16:
		return uint16(bits)
	case types.Uint32:
		return uint32(bits)
	case types.Uint64:
		return bits
	case types.Uintptr:
		return uintptr(bits)
	case types.Float32:
		return math.Float32frombits(uint32(bits))
	case types.Float64:
		return math.Float64frombits(bits)
	}
	panic(fmt.Sprintf("concreteOfKind %v", k))
}

// val wraps a term as a value, folding constants back to native values.
func (i *interpreter) val(t *smt.Term, k types.BasicKind) value {
	if t.IsConst() {
		return concreteOfKind(k, t.Val)
	}
	return sym{t, k}
}

func (i *interpreter) and(x, y value) value {
	if b, ok := x.(bool); ok {
		if !b {
			return false
		}
		return y
	}
	if b, ok := y.(bool); ok {
		if !b {
			return false
		}
		return x
	}
	return i.val(i.ctx.And(i.term(x), i.term(y)), types.Bool)
}

func (i *interpreter) or(x, y value) value {
	if b, ok := x.(bool); ok {
		if b {
			return true
		}
		return y
	}
	if b, ok := y.(bool); ok {
		if b {
			return true
		}
		return x
	}
	return i.val(i.ctx.Or(i.term(x), i.term(y)), types.Bool)
}

func (i *interpreter) not(x value) value {
	if b, ok := x.(bool); ok {
		return !b
	}
	return i.val(i.ctx.Not(i.term(x)), types.Bool)
}

// truth forces a (possibly symbolic) boolean to a concrete one by deciding.
func (i *interpreter) truth(x value) bool {
	if b, ok := x.(bool); ok {
		return b
	}
	return i.decide(x.(sym).t)
}

func (i *interpreter) runtimeError(msg string) value {
	return iface{i.runtimeErrorString, msg}
}

func (i *interpreter) throw(msg string) {
	if i.cfg.Debug {
		msg += " [at " + i.targetStack() + "]"
	}
	panic(targetPanic{i.runtimeError(msg)})
}

// symBinopCmp compares two scalars; op is one of == != < <= > >=.
func (i *interpreter) symBinopCmp(op string, x, y value) value {
	c := i.ctx
	k := kindOf(x)
	if _, ok := x.(sym); !ok {
		k = kindOf(y)
		if _, ok := y.(sym); !ok {
			k = kindOf(x)
		}
	}
	a, b := i.term(x), i.term(y)
	var r *smt.Term
	switch {
	case k == types.Bool:
		switch op {
		case "==":
			r = c.Eq(a, b)
		case "!=":
			r = c.Not(c.Eq(a, b))
		default:
			panic("bool cmp " + op)
		}
	case kindFloat(k):
		switch op {
		case "==":
			r = c.FpCmp(smt.OFpEq, a, b)
		case "!=":
			r = c.Not(c.FpCmp(smt.OFpEq, a, b))
		case "<":
			r = c.FpCmp(smt.OFpLt, a, b)
		case "<=":
			r = c.FpCmp(smt.OFpLe, a, b)
		case ">":
			r = c.FpCmp(smt.OFpLt, b, a)
		case ">=":
			r = c.FpCmp(smt.OFpLe, b, a)
		}
	default:
		lt, le := smt.OBvUlt, smt.OBvUle
		if kindSigned(k) {
			lt, le = smt.OBvSlt, smt.OBvSle
		}
		switch op {
		case "==":
			r = c.Eq(a, b)
		case "!=":
			r = c.Not(c.Eq(a, b))
		case "<":
			r = c.BvCmp(lt, a, b)
		case "<=":
			r = c.BvCmp(le, a, b)
		case ">":
			r = c.BvCmp(lt, b, a)
		case ">=":
			r = c.BvCmp(le, b, a)
		}
	}
	return i.val(r, types.Bool)
}

func isZeroInt(v value) bool {
	switch v := v.(type) {
	case int:
		return v == 0
	case int8:
		return v == 0
	case int16:
		return v == 0
	case int32:
		return v == 0
	case int64:
		return v == 0
	case uint:
		return v == 0
	case uint8:
		return v == 0
	case uint16:
		return v == 0
	case uint32:
		return v == 0
	case uint64:
		return v == 0
	case uintptr:
		return v == 0
	}
	return false
}

func isStringish(v value) bool {
	switch v.(type) {
	case string, sstr:
		return true
	}
	return false
}

// binop implements all binary operators.
func (i *interpreter) binop(op token.Token, t types.Type, x, y value) value {
	switch op {
	case token.EQL:
		return i.eqnil(t, x, y)
	case token.NEQ:
		return i.not(i.eqnil(t, x, y))
	}
	_, xs := x.(sym)
	_, ys := y.(sym)
	if !xs && !ys {
		if isStringish(x) {
			if _, ok := x.(sstr); ok {
				return i.strBinop(op, x, y)
			}
			if _, ok := y.(sstr); ok {
				return i.strBinop(op, x, y)
			}
			return binopConcrete(op, x, y)
		}
		switch op {
		case token.QUO, token.REM:
			if isZeroInt(y) {
				i.throw("integer divide by zero")
			}
		case token.SHL, token.SHR:
			if _, ok := asUnsigned(y); !ok {
				i.throw("negative shift amount")
			}
		}
		return binopConcrete(op, x, y)
	}
	c := i.ctx
	switch op {
	case token.LSS:
		return i.symBinopCmp("<", x, y)
	case token.LEQ:
		return i.symBinopCmp("<=", x, y)
	case token.GTR:
		return i.symBinopCmp(">", x, y)
	case token.GEQ:
		return i.symBinopCmp(">=", x, y)
	}
	k := kindOf(x)
	a := i.term(x)
	if op == token.SHL || op == token.SHR {
		ky := kindOf(y)
		b := i.term(y)
		if kindSigned(ky) {
			neg := c.BvCmp(smt.OBvSlt, b, c.BVConst(kindWidth(ky), 0))
			if i.decide(neg) {
				i.throw("negative shift amount")
			}
		}
		w, wy := kindWidth(k), kindWidth(ky)
		switch {
		case wy < w:
			b = c.Zext(b, w)
		case wy > w:
			big := c.BvCmp(smt.OBvUle, c.BVConst(wy, uint64(w)), b)
			b = c.Ite(big, c.BVConst(w, uint64(w)), c.Extract(b, w-1, 0))
		}
		var r *smt.Term
		switch {
		case op == token.SHL:
			r = c.BvBin(smt.OBvShl, a, b)
		case kindSigned(k):
			r = c.BvBin(smt.OBvAshr, a, b)
		default:
			r = c.BvBin(smt.OBvLshr, a, b)
		}
		return i.val(r, k)
	}
	if _, ok := x.(sym); !ok {
		k = kindOf(y)
	}
	b := i.term(y)
	if kindFloat(k) {
		var o smt.Op
		switch op {
		case token.ADD:
			o = smt.OFpAdd
		case token.SUB:
			o = smt.OFpSub
		case token.MUL:
			o = smt.OFpMul
		case token.QUO:
			o = smt.OFpDiv
		default:
			panic(fmt.Sprintf("float op %s", op))
		}
		return i.val(c.FpBin(o, a, b), k)
	}
	var o smt.Op
	switch op {
	case token.ADD:
		o = smt.OBvAdd
	case token.SUB:
		o = smt.OBvSub
	case token.MUL:
		o = smt.OBvMul
	case token.QUO, token.REM:
		z := c.Eq(b, c.BVConst(kindWidth(k), 0))
		if i.decide(z) {
			i.throw("integer divide by zero")
		}
		switch {
		case op == token.QUO && kindSigned(k):
			o = smt.OBvSdiv
		case op == token.QUO:
			o = smt.OBvUdiv
		case kindSigned(k):
			o = smt.OBvSrem
		default:
			o = smt.OBvUrem
		}
	case token.AND:
		o = smt.OBvAnd
	case token.OR:
		o = smt.OBvOr
	case token.XOR:
		o = smt.OBvXor
	case token.AND_NOT:
		return i.val(c.BvBin(smt.OBvAnd, a, c.BvNot(b)), k)
	default:
		panic(fmt.Sprintf("int op %s", op))
	}
	return i.val(c.BvBin(o, a, b), k)
}

// eqnil returns x == y (bool or symbolic Bool) for type t.
func (i *interpreter) eqnil(t types.Type, x, y value) value {
	switch t.Underlying().(type) {
	case *types.Map, *types.Signature, *types.Slice:
		switch x := x.(type) {
		case *omap:
			return (x != nil) == (y.(*omap) != nil)
		case *ssa.Function:
			switch y := y.(type) {
			case *ssa.Function:
				return (x != nil) == (y != nil)
			case *closure:
				return x != nil
			}
		case *closure:
			switch y := y.(type) {
			case *ssa.Function:
				return y != nil
			case *closure:
				return true
			}
		case []value:
			return (x != nil) == (y.([]value) != nil)
		}
		panic(fmt.Sprintf("eqnil(%s): illegal dynamic type: %T", t, x))
	}
	return i.equals(t, x, y)
}

func (i *interpreter) unop(fr *frame, instr *ssa.UnOp, x value) value {
	switch instr.Op {
	case token.ARROW: // receive
		v, ok := i.chanRecv(x.(*schan))
		if !ok {
			v = zero(instr.X.Type().Underlying().(*types.Chan).Elem())
		}
		if instr.CommaOk {
			v = tuple{v, ok}
		}
		return v
	case token.SUB:
		if s, ok := x.(sym); ok {
			if kindFloat(s.k) {
				return i.val(i.ctx.FpUn(smt.OFpNeg, s.t), s.k)
			}
			return i.val(i.ctx.BvNeg(s.t), s.k)
		}
		switch x := x.(type) {
		case int:
			return -x
		case int8:
			return -x
		case int16:
			return -x
		case int32:
			return -x
		case int64:
			return -x
		case uint:
			return -x
		case uint8:
			return -x
		case uint16:
			return -x
		case uint32:
			return -x
		case uint64:
			return -x
		case uintptr:
			return -x
		case float32:
			return -x
		case float64:
			return -x
		case complex64:
			return -x
		case complex128:
			return -x
		}
	case token.MUL:
		switch p := x.(type) {
		case *value:
			if p == nil {
				i.throw("invalid memory address or nil pointer dereference")
			}
			if i.frozen != nil {
				i.noteFrozenRead(p)
			}
			return load(deref(instr.X.Type()), p)
		case symptr:
			return i.selectValue(p.elems, p.idx)
		}
	case token.NOT:
		return i.not(x)
	case token.XOR:
		if s, ok := x.(sym); ok {
			return i.val(i.ctx.BvNot(s.t), s.k)
		}
		switch x := x.(type) {
		case int:
			return ^x
		case int8:
			return ^x
		case int16:
			return ^x
		case int32:
			return ^x
		case int64:
			return ^x
		case uint:
			return ^x
		case uint8:
			return ^x
		case uint16:
			return ^x
		case uint32:
			return ^x
		case uint64:
			return ^x
		case uintptr:
			return ^x
		}
	}
	panic(fmt.Sprintf("invalid unary op %s %T", instr.Op, x))
}

func deref(t types.Type) types.Type {
	if p, ok := t.Underlying().(*types.Pointer); ok {
		return p.Elem()
	}
	panic(fmt.Sprintf("deref: not a pointer: %s", t))
}

// ---------------------------------------------------------------- symbolic indexing

// symptr is &elems[idx] for a symbolic idx already known to be in range.
type symptr struct {
	elems []value
	idx   *smt.Term // BV64
}

func isScalar(v value) bool {
	switch v.(type) {
	case sym, bool, int, int8, int16, int32, int64, uint, uint8, uint16, uint32, uint64, uintptr, float32, float64:
		return true
	}
	return false
}

// iteValue builds ite(c, a, b) over scalars and aggregates of scalars; ok=false when
// the two values differ in a non-scalar leaf.
func (i *interpreter) iteValue(c *smt.Term, a, b value) (value, bool) {
	switch a := a.(type) {
	case structure:
		b := b.(structure)
		r := make(structure, len(a))
		for k := range a {
			v, ok := i.iteValue(c, a[k], b[k])
			if !ok {
				return nil, false
			}
			r[k] = v
		}
		return r, true
	case array:
		b := b.(array)
		r := make(array, len(a))
		for k := range a {
			v, ok := i.iteValue(c, a[k], b[k])
			if !ok {
				return nil, false
			}
			r[k] = v
		}
		return r, true
	}
	if isScalar(a) && isScalar(b) {
		k := kindOf(a)
		if _, ok := a.(sym); !ok {
			k = kindOf(b)
		}
		if a == b {
			return a, true
		}
		return i.val(i.ctx.Ite(c, i.term(a), i.term(b)), k), true
	}
	// strings of equal length
	if isStringish(a) && isStringish(b) {
		ab, bb := strBytes(a), strBytes(b)
		if len(ab) == len(bb) {
			r := make([]value, len(ab))
			for k := range ab {
				r[k], _ = i.iteValue(c, ab[k], bb[k])
			}
			return mkstr(r), true
		}
		return nil, false
	}
	if va, ok := a.(iface); ok {
		vb := b.(iface)
		if sameType(va.t, vb.t) {
			if va.t == nil {
				return a, true
			}
			v, ok := i.iteValue(c, va.v, vb.v)
			if ok {
				return iface{va.t, v}, true
			}
		}
		return nil, false
	}
	// identical references
	defer func() { recover() }()
	if a == b {
		return a, true
	}
	return nil, false
}

// selectValue reads elems[idx]; idx in range.
func (i *interpreter) selectValue(elems []value, idx *smt.Term) value {
	c := i.ctx
	n := len(elems)
	// constant scalar table?
	if n >= 8 {
		allConc := true
		for _, e := range elems {
			if !isScalar(e) {
				allConc = false
				break
			}
			if _, ok := e.(sym); ok {
				allConc = false
				break
			}
		}
		if allConc {
			k := kindOf(elems[0])
			if !kindFloat(k) {
				tab := i.tableFor(elems, k)
				iw := tab.Idx.W
				return i.val(c.Select(tab, c.Extract(idx, iw-1, 0)), k)
			}
		}
	}
	acc := copyVal(elems[n-1])
	for k := n - 2; k >= 0; k-- {
		cond := c.Eq(idx, c.BVConst(64, uint64(k)))
		v, ok := i.iteValue(cond, elems[k], acc)
		if !ok {
			// non-mergeable elements: fork on the index instead
			kk := i.concretise(sym{idx, types.Int}, "index")
			return copyVal(elems[asInt64(kk)])
		}
		acc = v
	}
	return acc
}

func (i *interpreter) tableFor(elems []value, k types.BasicKind) *smt.Table {
	key := tabKey{p: &elems[0], n: len(elems)}
	if t, ok := i.tables[key]; ok {
		// content check (tables are normally immutable; verify cheaply)
		same := true
		for j, e := range elems {
			if i.term(e).Val != t.Vals[j] {
				same = false
				break
			}
		}
		if same {
			return t
		}
	}
	iw := 1
	for (1 << uint(iw)) < len(elems) {
		iw++
	}
	t := &smt.Table{Name: fmt.Sprintf("tab%d", len(i.tables)+i.tabSeq), Idx: smt.BV(iw), Elt: sortOfKind(k)}
	i.tabSeq++
	for _, e := range elems {
		t.Vals = append(t.Vals, i.term(e).Val)
	}
	// pad to 2^iw so every index value is defined
	for len(t.Vals) < (1 << uint(iw)) {
		t.Vals = append(t.Vals, 0)
	}
	i.tables[key] = t
	return t
}

type tabKey struct {
	p *value
	n int
}

// indexCheck raises the index-out-of-range panic when idx is not in [0,n).
// It returns the index as a concrete int (>=0) or, when symbolic, as a BV64 term.
func (i *interpreter) indexCheck(idx value, n int) (int, *smt.Term) {
	if s, ok := idx.(sym); ok {
		c := i.ctx
		t := s.t
		w := kindWidth(s.k)
		if w < 64 {
			if kindSigned(s.k) {
				t = c.Sext(t, 64)
			} else {
				t = c.Zext(t, 64)
			}
		}
		inr := c.BvCmp(smt.OBvUlt, t, c.BVConst(64, uint64(n)))
		if !i.decide(inr) {
			i.throw(fmt.Sprintf("index out of range [?] with length %d", n))
		}
		if n == 1 {
			return 0, nil
		}
		// an index with only a handful of feasible values is cheaper (and keeps the
		// state concrete) when forked than when carried as a symbolic table lookup
		if i.fewValues(t, 12) {
			return int(i.concretiseTerm(t, "index")), nil
		}
		return 0, t
	}
	k := asInt64(idx)
	if k < 0 || k >= int64(n) {
		i.throw(fmt.Sprintf("index out of range [%d] with length %d", k, n))
	}
	return int(k), nil
}

// concretise forks over the feasible values of a symbolic integer.
func (i *interpreter) concretise(v value, what string) value {
	s, ok := v.(sym)
	if !ok {
		return v
	}
	bits := i.concretiseTerm(s.t, what)
	return concreteOfKind(s.k, bits)
}

// intArg gives a concrete int64 for an integer operand, forking when symbolic.
func (i *interpreter) intArg(v value, what string) int64 {
	return asInt64(i.concretise(v, what))
}

// ---------------------------------------------------------------- strings

func strBytes(v value) []value {
	switch v := v.(type) {
	case sstr:
		return []value(v)
	case string:
		r := make([]value, len(v))
		for k := 0; k < len(v); k++ {
			r[k] = v[k]
		}
		return r
	}
	panic(fmt.Sprintf("strBytes: %T", v))
}

// mkstr builds a string value from bytes, normalising to a Go string when concrete.
func mkstr(bs []value) value {
	for _, b := range bs {
		if _, ok := b.(sym); ok {
			cp := make(sstr, len(bs))
			copy(cp, bs)
			return cp
		}
	}
	buf := make([]byte, len(bs))
	for k, b := range bs {
		buf[k] = b.(uint8)
	}
	return string(buf)
}

func strLen(v value) int {
	switch v := v.(type) {
	case sstr:
		return len(v)
	case string:
		return len(v)
	}
	panic(fmt.Sprintf("strLen: %T", v))
}

func (i *interpreter) strEq(x sstr, y value) value {
	yb := strBytes(y)
	if len(x) != len(yb) {
		return false
	}
	var acc value = true
	for k := range x {
		acc = i.and(acc, i.equalsScalar(x[k], yb[k]))
		if acc == false {
			return false
		}
	}
	return acc
}

func (i *interpreter) equalsScalar(a, b value) value {
	_, as := a.(sym)
	_, bs := b.(sym)
	if !as && !bs {
		return a == b
	}
	return i.symBinopCmp("==", a, b)
}

func (i *interpreter) strBinop(op token.Token, x, y value) value {
	xb, yb := strBytes(x), strBytes(y)
	switch op {
	case token.ADD:
		r := make([]value, 0, len(xb)+len(yb))
		r = append(r, xb...)
		r = append(r, yb...)
		return mkstr(r)
	case token.LSS:
		return i.strLess(xb, yb, false)
	case token.LEQ:
		return i.strLess(xb, yb, true)
	case token.GTR:
		return i.strLess(yb, xb, false)
	case token.GEQ:
		return i.strLess(yb, xb, true)
	}
	panic(fmt.Sprintf("string op %s", op))
}

// strLess builds x < y (or x <= y) lexicographically.
func (i *interpreter) strLess(x, y []value, orEq bool) value {
	n := len(x)
	if len(y) < n {
		n = len(y)
	}
	var tail value
	if orEq {
		tail = len(x) <= len(y)
	} else {
		tail = len(x) < len(y)
	}
	for k := n - 1; k >= 0; k-- {
		lt := i.binop(token.LSS, nil, x[k], y[k])
		eq := i.equalsScalar(x[k], y[k])
		tail = i.or(lt, i.and(eq, tail))
	}
	return tail
}

// slice returns x[lo:hi:max].  Any of lo, hi and max may be nil.
func (i *interpreter) slice(x, lo, hi, max value) value {
	var Len, Cap int
	switch x := x.(type) {
	case string:
		Len = len(x)
		Cap = Len
	case sstr:
		Len = len(x)
		Cap = Len
	case []value:
		Len = len(x)
		Cap = cap(x)
	case *value: // *array
		if x == nil {
			i.throw("invalid memory address or nil pointer dereference")
		}
		a := (*x).(array)
		Len = len(a)
		Cap = cap(a)
	}

	l := int64(0)
	if lo != nil {
		l = i.intArg(lo, "slice-low")
	}
	h := int64(Len)
	if hi != nil {
		h = i.intArg(hi, "slice-high")
	}
	m := int64(Cap)
	if max != nil {
		m = i.intArg(max, "slice-max")
	}
	if m < 0 || m > int64(Cap) {
		i.throw(fmt.Sprintf("slice bounds out of range [::%d] with capacity %d", m, Cap))
	}
	if h < 0 || h > m {
		if _, isStr := x.(string); isStr || max != nil {
			i.throw(fmt.Sprintf("slice bounds out of range [:%d] with length %d", h, m))
		}
		i.throw(fmt.Sprintf("slice bounds out of range [:%d] with capacity %d", h, m))
	}
	if l < 0 || l > h {
		i.throw(fmt.Sprintf("slice bounds out of range [%d:%d]", l, h))
	}

	switch x := x.(type) {
	case string:
		return x[l:h]
	case sstr:
		return mkstr([]value(x[l:h]))
	case []value:
		if x == nil {
			return x
		}
		return x[l:h:m]
	case *value: // *array
		a := (*x).(array)
		return []value(a)[l:h:m]
	}
	panic(fmt.Sprintf("slice: unexpected X type: %T", x))
}

// lookup returns x[idx] where x is a map.
func (i *interpreter) lookup(instr *ssa.Lookup, x, idx value) value {
	m, ok := x.(*omap)
	if !ok {
		panic(fmt.Sprintf("unexpected x type in Lookup: %T", x))
	}
	v, found := i.mapLookup(m, idx)
	if !found {
		v = zero(instr.X.Type().Underlying().(*types.Map).Elem())
	} else {
		v = copyVal(v)
	}
	if instr.CommaOk {
		v = tuple{v, found}
	}
	return v
}

// typeAssert checks whether dynamic type of itf is instr.AssertedType.
func (i *interpreter) typeAssert(instr *ssa.TypeAssert, itf iface) value {
	var v value
	err := ""
	if itf.t == nil {
		err = fmt.Sprintf("interface conversion: interface is nil, not %s", instr.AssertedType)
	} else if idst, ok := instr.AssertedType.Underlying().(*types.Interface); ok {
		v = itf
		err = checkInterface(i, idst, itf)
	} else if types.Identical(itf.t, instr.AssertedType) {
		v = itf.v // extract value
	} else {
		err = fmt.Sprintf("interface conversion: interface is %s, not %s", itf.t, instr.AssertedType)
	}
	if err != "" {
		if !instr.CommaOk {
			i.throw(err)
		}
		return tuple{zero(instr.AssertedType), false}
	}
	if instr.CommaOk {
		return tuple{v, true}
	}
	return v
}

// ---------------------------------------------------------------- conversions

func (i *interpreter) conv(fr *frame, t_dst, t_src types.Type, x value) value {
	ut_src := t_src.Underlying()
	ut_dst := t_dst.Underlying()
	switch x := x.(type) {
	case sym:
		db, ok := ut_dst.(*types.Basic)
		if !ok {
			panic(fmt.Sprintf("conv sym -> %s", t_dst))
		}
		if db.Kind() == types.String {
			// string(rune): run utf8.AppendRune on the symbolic rune
			r := i.convScalar(x, types.Int32)
			bs := i.callByName(fr, "unicode/utf8.AppendRune", []value(nil), r).([]value)
			return mkstr(bs)
		}
		return i.convScalar(x, basicKind(t_dst))
	case sstr:
		switch ud := ut_dst.(type) {
		case *types.Basic:
			if ud.Kind() == types.String {
				return x
			}
		case *types.Slice:
			switch ud.Elem().Underlying().(*types.Basic).Kind() {
			case types.Byte:
				r := make([]value, len(x))
				copy(r, x)
				return r
			case types.Rune:
				var res []value
				rest := value(x)
				for strLen(rest) > 0 {
					t := i.callByName(fr, "unicode/utf8.DecodeRuneInString", rest).(tuple)
					res = append(res, t[0])
					n := int(asInt64(t[1]))
					rest = i.slice(rest, n, nil, nil)
				}
				return res
			}
		}
		panic(fmt.Sprintf("conv sstr -> %s", t_dst))
	case []value:
		if sl, ok := ut_src.(*types.Slice); ok {
			if db, ok := ut_dst.(*types.Basic); ok && db.Kind() == types.String {
				switch sl.Elem().Underlying().(*types.Basic).Kind() {
				case types.Byte:
					return mkstr(x)
				case types.Rune:
					anySym := false
					for _, e := range x {
						if _, ok := e.(sym); ok {
							anySym = true
						}
					}
					if anySym {
						var bs []value
						for _, e := range x {
							bs = i.callByName(fr, "unicode/utf8.AppendRune", bs, e).([]value)
						}
						return mkstr(bs)
					}
				}
			}
		}
	}
	return convConcrete(t_dst, t_src, x)
}

// convScalar converts a symbolic number to kind kd.
func (i *interpreter) convScalar(x sym, kd types.BasicKind) value {
	c := i.ctx
	ks := x.k
	if ks == kd {
		return x
	}
	ws, wd := kindWidth(ks), kindWidth(kd)
	switch {
	case kindInt(ks) && kindInt(kd):
		if wd <= ws {
			return i.val(c.Extract(x.t, wd-1, 0), kd)
		}
		if kindSigned(ks) {
			return i.val(c.Sext(x.t, wd), kd)
		}
		return i.val(c.Zext(x.t, wd), kd)
	case kindInt(ks) && kindFloat(kd):
		return i.val(c.FpFromBV(x.t, kindSigned(ks), wd), kd)
	case kindFloat(ks) && kindFloat(kd):
		return i.val(c.FpFromFP(x.t, wd), kd)
	case kindFloat(ks) && kindInt(kd):
		f := x.t
		if ws == 32 {
			f = c.FpFromFP(f, 64)
		}
		return i.val(i.floatToInt(f, kd), kd)
	}
	panic(fmt.Sprintf("convScalar %v -> %v", ks, kd))
}

// floatToInt models amd64 float64->integer conversion (CVTTSD2SQ: out of range / NaN
// give 0x8000000000000000), narrower kinds by truncating the 64-bit result.
func (i *interpreter) floatToInt(f *smt.Term, kd types.BasicKind) *smt.Term {
	c := i.ctx
	two63 := c.FPConst64(9223372036854775808.0)
	toS64 := func(g *smt.Term) *smt.Term {
		inr := c.And(c.FpCmp(smt.OFpLe, c.FPConst64(-9223372036854775808.0), g), c.FpCmp(smt.OFpLt, g, two63))
		return c.Ite(inr, c.FpToBV(g, true, 64), c.BVConst(64, 1<<63))
	}
	var r *smt.Term
	if kd == types.Uint64 || kd == types.Uint || kd == types.Uintptr {
		lt := c.FpCmp(smt.OFpLt, f, two63)
		a := toS64(f)
		b := c.BvBin(smt.OBvXor, toS64(c.FpBin(smt.OFpSub, f, two63)), c.BVConst(64, 1<<63))
		r = c.Ite(lt, a, b)
	} else {
		r = toS64(f)
	}
	return c.Extract(r, kindWidth(kd)-1, 0)
}

var _ = unsafe.Pointer(nil)
