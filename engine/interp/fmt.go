package interp

// A native re-implementation of the fmt verbs over engine values.  The real fmt is
// reflection driven and cannot be interpreted; this model renders concrete scalars by
// delegating to the host's fmt with the same verb, calls Error()/String() methods
// through the interpreter, copies symbolic string bytes verbatim for %s/%v, and forks
// over the (few) feasible values of a symbolic integer printed with %d.

import (
	"fmt"
	"go/types"
	"math"
	"sort"
	"strconv"
	"strings"

	"golang.org/x/tools/go/ssa"

	"gosx/smt"
)

func registerFmt() {
	externals["fmt.Sprintf"] = func(fr *frame, a []value) value {
		return mkstr(fr.i.sprintf(fr, a[0], a[1].([]value)))
	}
	externals["fmt.Errorf"] = extErrorf
	externals["fmt.Sprint"] = func(fr *frame, a []value) value { return mkstr(fr.i.sprint(fr, a[0].([]value), false)) }
	externals["fmt.Sprintln"] = func(fr *frame, a []value) value { return mkstr(fr.i.sprint(fr, a[0].([]value), true)) }
	externals["fmt.Printf"] = func(fr *frame, a []value) value {
		bs := fr.i.sprintf(fr, a[0], a[1].([]value))
		return tuple{len(bs), iface{}}
	}
	externals["fmt.Println"] = func(fr *frame, a []value) value {
		bs := fr.i.sprint(fr, a[0].([]value), true)
		return tuple{len(bs), iface{}}
	}
	externals["fmt.Print"] = func(fr *frame, a []value) value {
		bs := fr.i.sprint(fr, a[0].([]value), false)
		return tuple{len(bs), iface{}}
	}
	externals["fmt.Fprintf"] = func(fr *frame, a []value) value {
		return fr.i.fwrite(fr, a[0], fr.i.sprintf(fr, a[1], a[2].([]value)))
	}
	externals["fmt.Fprint"] = func(fr *frame, a []value) value {
		return fr.i.fwrite(fr, a[0], fr.i.sprint(fr, a[1].([]value), false))
	}
	externals["fmt.Fprintln"] = func(fr *frame, a []value) value {
		return fr.i.fwrite(fr, a[0], fr.i.sprint(fr, a[1].([]value), true))
	}
	externals["fmt.Sscanf"] = unsupported("fmt.Sscanf")
	externals["fmt.Sscan"] = unsupported("fmt.Sscan")
}

func (i *interpreter) fwrite(fr *frame, w value, bs []value) value {
	wi := w.(iface)
	if wi.t == nil {
		i.throw("invalid memory address or nil pointer dereference")
	}
	m := i.prog.LookupMethod(wi.t, nil, "Write")
	if m == nil {
		panic(fmt.Sprintf("no Write method on %s", wi.t))
	}
	buf := make([]value, len(bs))
	copy(buf, bs)
	return callSSA(i, fr, 0, m, []value{wi.v, buf}, nil)
}

func extErrorf(fr *frame, a []value) value {
	i := fr.i
	args := a[1].([]value)
	bs := i.sprintf(fr, a[0], args)
	msg := mkstr(bs)
	format, isConcrete := a[0].(string)
	if !isConcrete {
		// symbolic format: %w operands are not tracked (the message text is exact)
		return i.callByName(fr, "errors.New", msg)
	}
	// %w operands
	var wrapped []value
	argN := 0
	for k := 0; k < len(format); k++ {
		if format[k] != '%' {
			continue
		}
		k++
		for k < len(format) && strings.IndexByte("+-# 0123456789.*[]", format[k]) >= 0 {
			k++
		}
		if k >= len(format) {
			break
		}
		if format[k] == '%' {
			continue
		}
		if format[k] == 'w' && argN < len(args) {
			wrapped = append(wrapped, args[argN])
		}
		argN++
	}
	switch len(wrapped) {
	case 0:
		return i.callByName(fr, "errors.New", msg)
	default:
		pkg := i.prog.ImportedPackage("fmt")
		T := pkg.Type("wrapError").Type()
		var cell value = structure{msg, wrapped[0]}
		return iface{types.NewPointer(T), &cell}
	}
}

func (i *interpreter) sprint(fr *frame, args []value, ln bool) []value {
	var out []value
	prevString := false
	for k, arg := range args {
		a := arg.(iface)
		isString := false
		if a.t != nil {
			if b, ok := a.t.Underlying().(*types.Basic); ok && b.Kind() == types.String {
				isString = true
			}
		}
		if k > 0 && (ln || (!isString && !prevString)) {
			out = append(out, uint8(' '))
		}
		out = append(out, i.formatArg(fr, spec{verb: 'v'}, a, 0)...)
		prevString = isString
	}
	if ln {
		out = append(out, uint8('\n'))
	}
	return out
}

type spec struct {
	flags string
	width int
	prec  int
	hasW  bool
	hasP  bool
	verb  byte
}

func (s spec) String() string {
	r := "%" + s.flags
	if s.hasW {
		r += strconv.Itoa(s.width)
	}
	if s.hasP {
		r += "." + strconv.Itoa(s.prec)
	}
	return r + string(s.verb)
}

func (s spec) plus() bool  { return strings.Contains(s.flags, "+") }
func (s spec) sharp() bool { return strings.Contains(s.flags, "#") }

func litBytes(s string) []value {
	r := make([]value, len(s))
	for k := 0; k < len(s); k++ {
		r[k] = s[k]
	}
	return r
}

// resolveFormat turns a format string with symbolic bytes into a concrete one: a
// symbolic byte that is neither '%' nor part of a directive becomes a private marker
// byte (put back into the output afterwards); inside a directive a symbolic byte that
// can be a flag / digit / verb character is concretised by forking, any other byte is
// an unknown verb and is carried by a marker as well (Go prints "%!c(type=value)").
func (i *interpreter) resolveFormat(fs sstr) (string, map[byte]value) {
	const directiveChars = "+-# 0123456789.*[]vTtbcdoOqxXUeEfFgGspw%"
	markers := map[byte]value{}
	next := byte(1)
	var out []byte
	inDir := false
	for _, b := range fs {
		c, concrete := b.(uint8)
		if !concrete {
			t := i.term(b)
			switch {
			case !inDir && i.decide(i.ctx.Eq(t, i.ctx.BVConst(8, '%'))):
				c, concrete = '%', true
			case inDir:
				var in *smt.Term = i.ctx.False
				for k := 0; k < len(directiveChars); k++ {
					in = i.ctx.Or(in, i.ctx.Eq(t, i.ctx.BVConst(8, uint64(directiveChars[k]))))
				}
				if i.decide(in) {
					c, concrete = byte(i.concretiseTermMax(t, "fmt directive character", 64)), true
				}
			}
		}
		if !concrete {
			for next == '%' || next == '\n' || next == '\t' {
				next++
			}
			if next >= 32 {
				panic(pathEnd{kind: "unsupported", msg: "format string with more than 28 symbolic bytes"})
			}
			markers[next] = b
			out = append(out, next)
			next++
			inDir = false
			continue
		}
		if c < 32 && c != '\n' && c != '\t' && c != '\r' {
			panic(pathEnd{kind: "unsupported", msg: "control character in a format string with symbolic bytes"})
		}
		out = append(out, c)
		switch {
		case !inDir && c == '%':
			inDir = true
		case inDir && strings.IndexByte("+-# 0123456789.*[]", c) < 0:
			inDir = false // a verb (or the second '%') ends the directive
		}
	}
	return string(out), markers
}

func (i *interpreter) sprintf(fr *frame, formatV value, args []value) []value {
	format, ok := formatV.(string)
	if !ok {
		fs, isS := formatV.(sstr)
		if !isS {
			panic(pathEnd{kind: "unsupported", msg: "format string of unexpected representation"})
		}
		concrete, markers := i.resolveFormat(fs)
		out := i.sprintf(fr, concrete, args)
		seen := map[byte]int{}
		for k, b := range out {
			if c, ok := b.(uint8); ok {
				if v, isM := markers[c]; isM {
					out[k] = v
					seen[c]++
				}
			}
		}
		for m := range markers {
			if seen[m] != 1 {
				panic(pathEnd{kind: "unsupported", msg: "format string with symbolic bytes: marker byte also occurs in an operand"})
			}
		}
		return out
	}
	var out []value
	argN := 0
	reordered := false
	for k := 0; k < len(format); {
		c := format[k]
		if c != '%' {
			out = append(out, c)
			k++
			continue
		}
		k++
		var sp spec
		for k < len(format) && strings.IndexByte("+-# 0", format[k]) >= 0 {
			sp.flags += string(format[k])
			k++
		}
		// explicit argument index "[n]"
		argIndex := func() {
			if k < len(format) && format[k] == '[' {
				end := strings.IndexByte(format[k:], ']')
				if end > 1 {
					if n, err := strconv.Atoi(format[k+1 : k+end]); err == nil && n >= 1 && n <= len(args) {
						argN = n - 1
						reordered = true
						k += end + 1
						return
					}
				}
				panic(pathEnd{kind: "unsupported", msg: "fmt: malformed argument index in " + format})
			}
		}
		nextInt := func() (int, bool) {
			argIndex()
			if k < len(format) && format[k] == '*' {
				k++
				if argN < len(args) {
					av := args[argN].(iface)
					argN++
					isInt := false
					if av.t != nil {
						if b, ok := av.t.Underlying().(*types.Basic); ok && b.Info()&types.IsInteger != 0 {
							isInt = true
						}
					}
					if !isInt {
						out = append(out, litBytes("%!(BADWIDTH)")...) // Go prints BADWIDTH / BADPREC; the distinction is not modelled
						return 0, false
					}
					return int(i.intArg(av.v, "fmt width")), true
				}
				out = append(out, litBytes("%!(BADWIDTH)")...)
				return 0, false
			}
			st := k
			for k < len(format) && format[k] >= '0' && format[k] <= '9' {
				k++
			}
			if st == k {
				return 0, false
			}
			n, _ := strconv.Atoi(format[st:k])
			return n, true
		}
		sp.width, sp.hasW = nextInt()
		if k < len(format) && format[k] == '.' {
			k++
			sp.prec, sp.hasP = nextInt()
			sp.hasP = true
		}
		argIndex()
		if k >= len(format) {
			out = append(out, litBytes("%!(NOVERB)")...)
			break
		}
		sp.verb = format[k]
		k++
		if sp.verb == 'w' {
			sp.verb = 'v' // Errorf's %w prints like %v
		}
		if sp.verb == '%' {
			out = append(out, uint8('%'))
			continue
		}
		if argN >= len(args) {
			out = append(out, litBytes("%!"+string(sp.verb)+"(MISSING)")...)
			continue
		}
		arg := args[argN].(iface)
		argN++
		out = append(out, i.formatArg(fr, sp, arg, 0)...)
	}
	if !reordered && argN < len(args) {
		out = append(out, litBytes("%!(EXTRA ")...)
		for k := argN; k < len(args); k++ {
			if k > argN {
				out = append(out, litBytes(", ")...)
			}
			a := args[k].(iface)
			if a.t == nil {
				out = append(out, litBytes("<nil>")...)
			} else {
				out = append(out, litBytes(typeStringLikeReflect(a.t)+"=")...)
				out = append(out, i.formatArg(fr, spec{verb: 'v'}, a, 0)...)
			}
		}
		out = append(out, uint8(')'))
	}
	return out
}

func (i *interpreter) method(t types.Type, name string) *ssa.Function {
	ms := i.prog.MethodSets.MethodSet(t)
	for k := 0; k < ms.Len(); k++ {
		sel := ms.At(k)
		if sel.Obj().Name() != name {
			continue
		}
		sig := sel.Type().(*types.Signature)
		if sig.Params().Len() != 0 || sig.Results().Len() != 1 {
			return nil
		}
		if b, ok := sig.Results().At(0).Type().Underlying().(*types.Basic); !ok || b.Kind() != types.String {
			return nil
		}
		return i.prog.MethodValue(sel)
	}
	return nil
}

func isNilRef(v value) bool {
	switch v := v.(type) {
	case *value:
		return v == nil
	case *omap:
		return v == nil
	case []value:
		return v == nil
	}
	return false
}

// formatArg renders one operand.
func (i *interpreter) formatArg(fr *frame, sp spec, a iface, depth int) []value {
	if a.t == nil {
		switch sp.verb {
		case 'T', 'v':
			return litBytes("<nil>")
		}
		return litBytes("%!" + string(sp.verb) + "(<nil>)")
	}
	if sp.verb == 'T' {
		return litBytes(typeStringLikeReflect(a.t))
	}
	if sp.verb == 'p' {
		return litBytes("0xc000000000")
	}
	// Error() / String()
	if strings.IndexByte("vsxXq", sp.verb) >= 0 && !sp.sharp() {
		for _, name := range []string{"Error", "String"} {
			if name == "Error" && !types.Implements(a.t, errorInterface) {
				continue
			}
			if m := i.method(a.t, name); m != nil {
				if isNilRef(a.v) {
					if _, isPtr := a.t.Underlying().(*types.Pointer); isPtr {
						return litBytes("<nil>")
					}
				}
				s := callSSA(i, fr, 0, m, []value{a.v}, nil)
				return i.formatString(fr, sp, s)
			}
		}
	}
	return i.formatValue(fr, sp, a.t, a.v, depth)
}

var errorInterface = types.Universe.Lookup("error").Type().Underlying().(*types.Interface)

func (i *interpreter) formatString(fr *frame, sp spec, s value) []value {
	if str, ok := s.(string); ok {
		if sp.verb == 'v' {
			sp2 := sp
			sp2.verb = 's'
			sp2.flags = strings.ReplaceAll(sp2.flags, "+", "")
			return litBytes(fmt.Sprintf(sp2.String(), str))
		}
		return litBytes(fmt.Sprintf(sp.String(), str))
	}
	ss := s.(sstr)
	switch sp.verb {
	case 's', 'v':
		bs := []value(ss)
		if sp.hasP && sp.prec < len(bs) {
			// precision counts runes: walk the string with the real decoder (forks on
			// the symbolic lead bytes)
			n := 0
			rest := value(ss)
			for k := 0; k < sp.prec && strLen(rest) > 0; k++ {
				t := i.callByName(fr, "unicode/utf8.DecodeRuneInString", rest).(tuple)
				w := int(asInt64(t[1]))
				n += w
				rest = i.slice(rest, w, nil, nil)
			}
			bs = bs[:n]
		}
		if sp.hasW && sp.width > len(bs) {
			pad := litBytes(strings.Repeat(" ", sp.width-len(bs)))
			if strings.Contains(sp.flags, "-") {
				return append(append([]value(nil), bs...), pad...)
			}
			return append(pad, bs...)
		}
		return bs
	case 'q':
		if sp.hasP || sp.hasW || sp.flags != "" {
			panic(pathEnd{kind: "unsupported", msg: "flagged %q of a symbolic string"})
		}
		return strBytes(i.callByName(fr, "strconv.Quote", s))
	}
	if (sp.verb == 'x' || sp.verb == 'X') && !sp.hasW && !sp.hasP && sp.flags == "" {
		// two hex digits per byte
		var r []value
		base := uint64('a')
		if sp.verb == 'X' {
			base = 'A'
		}
		digit := func(n *smt.Term) value {
			c := i.ctx
			lt10 := c.BvCmp(smt.OBvUlt, n, c.BVConst(8, 10))
			return i.val(c.Ite(lt10, c.BvBin(smt.OBvAdd, n, c.BVConst(8, '0')), c.BvBin(smt.OBvAdd, n, c.BVConst(8, base-10))), types.Uint8)
		}
		for _, b := range ss {
			t := i.term(b)
			r = append(r, digit(i.ctx.BvBin(smt.OBvLshr, t, i.ctx.BVConst(8, 4))), digit(i.ctx.BvBin(smt.OBvAnd, t, i.ctx.BVConst(8, 15))))
		}
		return r
	}
	if strings.IndexByte("vsqxX", sp.verb) < 0 {
		// a verb that does not apply to strings, or an unknown one: %!verb(string=value)
		r := litBytes("%!" + string(sp.verb) + "(string=")
		r = append(r, []value(ss)...)
		return append(r, uint8(')'))
	}
	panic(pathEnd{kind: "unsupported", msg: fmt.Sprintf("%%%c of a symbolic string", sp.verb)})
}

func (i *interpreter) formatValue(fr *frame, sp spec, t types.Type, v value, depth int) []value {
	switch ut := t.Underlying().(type) {
	case *types.Basic:
		if s, ok := v.(sym); ok {
			switch {
			case s.k == types.Bool:
				v = i.truth(s)
			case kindFloat(s.k):
				v = i.concretiseFloat(s)
			default:
				if (sp.verb == 'q' || sp.verb == 'c') && sp.flags == "" && !sp.hasW && !sp.hasP {
					// a symbolic character: run the real conversion on it
					r := i.convScalar(s, types.Int32)
					if sp.verb == 'q' {
						return strBytes(i.callByName(fr, "strconv.QuoteRune", r))
					}
					return i.callByName(fr, "unicode/utf8.AppendRune", []value(nil), r).([]value)
				}
				if !i.fewValues(s.t, i.cfg.MaxConcretise) && !i.fewValuesSolver(s.t) {
					// text of a (widely ranging) symbolic number: not modelled.  It is
					// rendered as a few unconstrained bytes, an over-approximation of its
					// content; anything that depends on it is re-checked by native replay.
					i.path.res.OpaqueFormats++
					out := make([]value, 3)
					for k := range out {
						i.path.fresh++
						out[k] = sym{i.newVar("$fmt"+strconv.Itoa(i.path.fresh), smt.BV(8)), types.Uint8}
					}
					return out
				}
				v = i.concretise(s, "fmt %"+string(sp.verb))
			}
		}
		if isStringish(v) {
			return i.formatString(fr, sp, v)
		}
		return litBytes(fmt.Sprintf(sp.String(), v))
	case *types.Pointer:
		p := v.(*value)
		if p == nil {
			return litBytes("<nil>")
		}
		if depth == 0 {
			switch ut.Elem().Underlying().(type) {
			case *types.Struct, *types.Array, *types.Slice, *types.Map:
				return append(litBytes("&"), i.formatValue(fr, sp, ut.Elem(), *p, depth+1)...)
			}
		}
		return litBytes("0xc000000000")
	case *types.Struct:
		st := v.(structure)
		out := litBytes("{")
		for k := range st {
			if k > 0 {
				out = append(out, uint8(' '))
			}
			f := ut.Field(k)
			if sp.plus() || sp.sharp() {
				out = append(out, litBytes(f.Name()+":")...)
			}
			out = append(out, i.formatField(fr, sp, f.Type(), st[k], depth+1, f.Exported())...)
		}
		return append(out, uint8('}'))
	case *types.Slice:
		sl := v.([]value)
		if b, ok := ut.Elem().Underlying().(*types.Basic); ok && b.Kind() == types.Uint8 && (sp.verb == 's' || sp.verb == 'q' || sp.verb == 'x') {
			return i.formatString(fr, sp, mkstr(sl))
		}
		if sl == nil && sp.sharp() {
			return litBytes(t.String() + "(nil)")
		}
		out := litBytes("[")
		for k := range sl {
			if k > 0 {
				out = append(out, uint8(' '))
			}
			out = append(out, i.formatField(fr, sp, ut.Elem(), sl[k], depth+1, true)...)
		}
		return append(out, uint8(']'))
	case *types.Array:
		arr := v.(array)
		out := litBytes("[")
		for k := range arr {
			if k > 0 {
				out = append(out, uint8(' '))
			}
			out = append(out, i.formatField(fr, sp, ut.Elem(), arr[k], depth+1, true)...)
		}
		return append(out, uint8(']'))
	case *types.Map:
		m := v.(*omap)
		out := litBytes("map[")
		type kv struct{ k, v []value }
		var ents []kv
		if m != nil {
			for _, e := range m.ents {
				if e.dead {
					continue
				}
				ents = append(ents, kv{i.formatField(fr, sp, ut.Key(), e.k, depth+1, true), i.formatField(fr, sp, ut.Elem(), e.v, depth+1, true)})
			}
		}
		sort.SliceStable(ents, func(a, b int) bool { return toString(ents[a].k) < toString(ents[b].k) })
		for k, e := range ents {
			if k > 0 {
				out = append(out, uint8(' '))
			}
			out = append(out, e.k...)
			out = append(out, uint8(':'))
			out = append(out, e.v...)
		}
		return append(out, uint8(']'))
	case *types.Interface:
		return i.formatArgDepth(fr, sp, v.(iface), depth)
	case *types.Signature:
		return litBytes("0xc000000000")
	case *types.Chan:
		return litBytes("0xc000000000")
	}
	panic(pathEnd{kind: "unsupported", msg: fmt.Sprintf("fmt of %s", t)})
}

func (i *interpreter) formatArgDepth(fr *frame, sp spec, a iface, depth int) []value {
	if a.t == nil {
		return litBytes("<nil>")
	}
	return i.formatArg(fr, sp, a, depth)
}

func (i *interpreter) formatField(fr *frame, sp spec, t types.Type, v value, depth int, exported bool) []value {
	if _, ok := t.Underlying().(*types.Interface); ok {
		a := v.(iface)
		if a.t == nil {
			return litBytes("<nil>")
		}
		if exported {
			return i.formatArg(fr, sp, a, depth)
		}
		return i.formatValue(fr, sp, a.t, a.v, depth)
	}
	if exported {
		return i.formatArg(fr, sp, iface{t, v}, depth)
	}
	return i.formatValue(fr, sp, t, v, depth)
}

// concretiseFloat forks a symbolic float into its special classes (NaN, infinities,
// zeros); any other value must be unique on the path, otherwise formatting it is
// outside the model.
func (i *interpreter) concretiseFloat(s sym) value {
	c := i.ctx
	if s.k != types.Float64 {
		panic(pathEnd{kind: "unsupported", msg: "formatting a symbolic float32"})
	}
	if i.decide(c.FpPred(smt.OFpIsNaN, s.t)) {
		return math.NaN()
	}
	bits := i.floatBits(s)
	return math.Float64frombits(i.concretiseTerm(bits, "float formatted as text"))
}

// typeStringLikeReflect: reflect.Type.String() qualifies names with the package NAME,
// go/types with the package path.
func typeStringLikeReflect(t types.Type) string {
	return types.TypeString(t, func(p *types.Package) string { return p.Name() })
}
