package interp

import (
	"go/types"
	"sort"
)

// omap is an insertion-ordered map whose keys may have symbolic leaves.
type mentry struct {
	k, v value
	dead bool
}

type omap struct {
	keyT types.Type
	ents []mentry
	idx  map[interface{}]int // concrete keys only
	nsym int                 // live entries with symbolic keys
	live int
}

func makeMap(kt types.Type) *omap {
	return &omap{keyT: kt, idx: map[interface{}]int{}}
}

func (m *omap) len() int {
	if m == nil {
		return 0
	}
	return m.live
}

// find returns the index of the entry equal to key or -1; may fork.
func (i *interpreter) mapFind(m *omap, key value) int {
	if m == nil {
		return -1
	}
	ksym := containsSym(key)
	if !ksym && m.nsym == 0 {
		if j, ok := m.idx[hashKey(key)]; ok {
			return j
		}
		return -1
	}
	if !ksym {
		if j, ok := m.idx[hashKey(key)]; ok {
			return j
		}
	}
	for j := range m.ents {
		e := &m.ents[j]
		if e.dead {
			continue
		}
		if !ksym && !containsSym(e.k) {
			continue // concrete vs concrete handled by idx
		}
		eq := i.equals(m.keyT, e.k, key)
		switch eq := eq.(type) {
		case bool:
			if eq {
				return j
			}
		case sym:
			if i.decide(eq.t) {
				return j
			}
		}
	}
	return -1
}

func (i *interpreter) mapLookup(m *omap, key value) (value, bool) {
	if i.frozen != nil && m != nil {
		i.noteFrozenMapRead(m)
	}
	j := i.mapFind(m, key)
	if j < 0 {
		return nil, false
	}
	return m.ents[j].v, true
}

const (
	muInsert = iota + 1
	muUpdate
	muDelete
)

func (i *interpreter) mapInsert(m *omap, key, v value) {
	if m == nil {
		panic(targetPanic{i.runtimeError("assignment to entry in nil map")})
	}
	if i.frozen != nil {
		i.checkFrozenMap(m)
	}
	j := i.mapFind(m, key)
	if j >= 0 {
		i.undo = append(i.undo, undoRec{m: m, ents: []mentry{{k: j, v: m.ents[j].v}}, old: muUpdate})
		m.ents[j].v = v
		return
	}
	m.ents = append(m.ents, mentry{k: key, v: v})
	if containsSym(key) {
		m.nsym++
	} else {
		m.idx[hashKey(key)] = len(m.ents) - 1
	}
	m.live++
	i.undo = append(i.undo, undoRec{m: m, old: muInsert})
}

func (i *interpreter) mapDelete(m *omap, key value) {
	if m == nil {
		return
	}
	if i.frozen != nil {
		i.checkFrozenMap(m)
	}
	j := i.mapFind(m, key)
	if j < 0 {
		return
	}
	e := &m.ents[j]
	e.dead = true
	m.live--
	if containsSym(e.k) {
		m.nsym--
	} else {
		delete(m.idx, hashKey(e.k))
	}
	i.undo = append(i.undo, undoRec{m: m, ents: []mentry{{k: j}}, old: muDelete})
}

// restore undoes one logged map operation (see undoRec; old holds the op kind).
func (m *omap) restoreOp(u undoRec) {
	switch u.old.(int) {
	case muInsert:
		e := m.ents[len(m.ents)-1]
		m.ents = m.ents[:len(m.ents)-1]
		if containsSym(e.k) {
			m.nsym--
		} else {
			delete(m.idx, hashKey(e.k))
		}
		m.live--
	case muUpdate:
		j := u.ents[0].k.(int)
		m.ents[j].v = u.ents[0].v
	case muDelete:
		j := u.ents[0].k.(int)
		e := &m.ents[j]
		e.dead = false
		m.live++
		if containsSym(e.k) {
			m.nsym++
		} else {
			m.idx[hashKey(e.k)] = j
		}
	}
}

func (m *omap) restore(ents []mentry) {} // unused (kept for undoRec symmetry)

type mapIter struct {
	m     *omap
	order []int
	pos   int
}

func (it *mapIter) next(fr *frame) tuple {
	for it.pos < len(it.order) {
		j := it.order[it.pos]
		it.pos++
		if j < len(it.m.ents) && !it.m.ents[j].dead {
			e := it.m.ents[j]
			return tuple{true, e.k, copyVal(e.v)}
		}
	}
	return tuple{false, nil, nil}
}

// Map iteration policies (vrt.MapOrder): the order in which `range` visits entries.
const (
	OrderInsertion = iota
	OrderReverse
	OrderRotate1
	OrderRotate2
	OrderKeyAsc
	OrderKeyDesc
	numOrders
)

func (i *interpreter) newMapIter(m *omap) *mapIter {
	it := &mapIter{m: m}
	if m == nil {
		return it
	}
	for j := range m.ents {
		if !m.ents[j].dead {
			it.order = append(it.order, j)
		}
	}
	n := len(it.order)
	switch i.mapOrder {
	case OrderReverse:
		for a, b := 0, n-1; a < b; a, b = a+1, b-1 {
			it.order[a], it.order[b] = it.order[b], it.order[a]
		}
	case OrderRotate1, OrderRotate2:
		if n > 1 {
			r := (i.mapOrder - OrderRotate1 + 1) % n
			it.order = append(it.order[r:], it.order[:r]...)
		}
	case OrderKeyAsc, OrderKeyDesc:
		if m.nsym == 0 {
			desc := i.mapOrder == OrderKeyDesc
			sort.SliceStable(it.order, func(a, b int) bool {
				ka, kb := toString(m.ents[it.order[a]].k), toString(m.ents[it.order[b]].k)
				if desc {
					return ka > kb
				}
				return ka < kb
			})
		}
	}
	return it
}
