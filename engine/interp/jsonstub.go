package interp

// Decoder stubs: encoding/json and danos/encoding/rfc7951 are reflection driven and not
// interpretable.  For CONCRETE input bytes their documented result (decoding into an
// empty interface) is computed natively and converted to engine values; symbolic input
// ends the path as unsupported.  json.Marshal is supported for a concrete string only.

import (
	"bytes"
	"encoding/json"
	"io"
	"go/types"
	"sort"

	"github.com/danos/encoding/rfc7951"
)

var (
	tyEmptyIface = types.NewInterfaceType(nil, nil)
	tyMapStrAny  = types.NewMap(types.Typ[types.String], tyEmptyIface)
	tySliceAny   = types.NewSlice(tyEmptyIface)
)

func (i *interpreter) toEngineAny(x interface{}) value {
	switch x := x.(type) {
	case nil:
		return iface{}
	case string:
		return iface{types.Typ[types.String], x}
	case bool:
		return iface{types.Typ[types.Bool], x}
	case float64:
		return iface{types.Typ[types.Float64], x}
	case json.Number:
		return iface{types.Typ[types.String], string(x)}
	case []interface{}:
		s := make([]value, len(x))
		for k, e := range x {
			s[k] = i.toEngineAny(e)
		}
		return iface{tySliceAny, s}
	case map[string]interface{}:
		m := makeMap(types.Typ[types.String])
		keys := make([]string, 0, len(x))
		for k := range x {
			keys = append(keys, k)
		}
		sort.Strings(keys)
		for _, k := range keys {
			i.mapInsert(m, k, i.toEngineAny(x[k]))
		}
		return iface{tyMapStrAny, m}
	}
	panic(pathEnd{kind: "unsupported", msg: "decoder stub: unexpected decoded value"})
}

func concreteBytes(v value) ([]byte, bool) {
	bs, ok := v.([]value)
	if !ok {
		return nil, false
	}
	out := make([]byte, len(bs))
	for k, b := range bs {
		c, ok := b.(uint8)
		if !ok {
			return nil, false
		}
		out[k] = c
	}
	return out, true
}

func (i *interpreter) decodeInto(fr *frame, a []value, dec func([]byte, interface{}) error, what string) value {
	data, ok := concreteBytes(a[0])
	if !ok {
		panic(pathEnd{kind: "unsupported", msg: what + " of symbolic bytes"})
	}
	target := a[1].(iface)
	p, isPtr := target.v.(*value)
	if !isPtr || p == nil {
		panic(pathEnd{kind: "unsupported", msg: what + " into a non-pointer"})
	}
	if pt, ok := target.t.Underlying().(*types.Pointer); !ok || !types.IsInterface(pt.Elem()) {
		panic(pathEnd{kind: "unsupported", msg: what + " into something other than *interface{}"})
	}
	var x interface{}
	if err := dec(data, &x); err != nil {
		return i.callByName(fr, "errors.New", err.Error())
	}
	i.write(p, i.toEngineAny(x))
	return iface{}
}

func init() {
	externals["encoding/json.Unmarshal"] = func(fr *frame, a []value) value {
		return fr.i.decodeInto(fr, a, json.Unmarshal, "json.Unmarshal")
	}
	externals["github.com/danos/encoding/rfc7951.Unmarshal"] = func(fr *frame, a []value) value {
		return fr.i.decodeInto(fr, a, rfc7951.Unmarshal, "rfc7951.Unmarshal")
	}
	externals["encoding/json.Marshal"] = func(fr *frame, a []value) value {
		x := a[0].(iface)
		s, ok := x.v.(string)
		if !ok {
			panic(pathEnd{kind: "unsupported", msg: "json.Marshal of a non-string or symbolic value"})
		}
		b, err := json.Marshal(s)
		if err != nil {
			return tuple{[]value(nil), fr.i.callByName(fr, "errors.New", err.Error())}
		}
		out := make([]value, len(b))
		for k, c := range b {
			out[k] = c
		}
		return tuple{out, iface{}}
	}
}

// ---- json.Decoder over a concrete *bytes.Reader: a native decoder kept in a side table,
// keyed by the engine object that stands for the *json.Decoder.

type nativeDecoder struct {
	d *json.Decoder
}

func (i *interpreter) jsonNamed(name string) types.Type {
	pkg := i.prog.ImportedPackage("encoding/json")
	if pkg == nil || pkg.Type(name) == nil {
		panic(pathEnd{kind: "unsupported", msg: "encoding/json." + name + " not in program"})
	}
	return pkg.Type(name).Type()
}

func (i *interpreter) toEngineAnyNum(x interface{}) value {
	switch x := x.(type) {
	case json.Number:
		return iface{i.jsonNamed("Number"), string(x)}
	case []interface{}:
		s := make([]value, len(x))
		for k, e := range x {
			s[k] = i.toEngineAnyNum(e)
		}
		return iface{tySliceAny, s}
	case map[string]interface{}:
		m := makeMap(types.Typ[types.String])
		keys := make([]string, 0, len(x))
		for k := range x {
			keys = append(keys, k)
		}
		sort.Strings(keys)
		for _, k := range keys {
			i.mapInsert(m, k, i.toEngineAnyNum(x[k]))
		}
		return iface{tyMapStrAny, m}
	}
	return i.toEngineAny(x)
}

func (i *interpreter) nativeDec(v value) *nativeDecoder {
	p, _ := v.(*value)
	nd := i.jsonDecoders[p]
	if nd == nil {
		panic(pathEnd{kind: "unsupported", msg: "json.Decoder not created by json.NewDecoder over a concrete *bytes.Reader"})
	}
	return nd
}

func (i *interpreter) ioEOF() value {
	pkg := i.prog.ImportedPackage("io")
	if pkg != nil {
		if g := pkg.Var("EOF"); g != nil {
			if p := i.globals[g]; p != nil {
				return *p
			}
		}
	}
	panic(pathEnd{kind: "unsupported", msg: "io.EOF not available"})
}

func init() {
	externals["encoding/json.NewDecoder"] = func(fr *frame, a []value) value {
		i := fr.i
		r, _ := a[0].(iface)
		rp, ok := r.v.(*value)
		if !ok || rp == nil || r.t.String() != "*bytes.Reader" {
			panic(pathEnd{kind: "unsupported", msg: "json.NewDecoder over a reader other than *bytes.Reader"})
		}
		st, ok := (*rp).(structure)
		if !ok || len(st) < 2 {
			panic(pathEnd{kind: "unsupported", msg: "json.NewDecoder: unexpected bytes.Reader layout"})
		}
		data, ok := concreteBytes(st[0])
		if !ok {
			panic(pathEnd{kind: "unsupported", msg: "json.NewDecoder over symbolic bytes"})
		}
		if off, ok := st[1].(int64); !ok || off != 0 {
			panic(pathEnd{kind: "unsupported", msg: "json.NewDecoder over a partly consumed reader"})
		}
		p := new(value)
		*p = zero(i.jsonNamed("Decoder"))
		if i.jsonDecoders == nil {
			i.jsonDecoders = map[*value]*nativeDecoder{}
		}
		i.jsonDecoders[p] = &nativeDecoder{d: json.NewDecoder(bytes.NewReader(data))}
		return p
	}
	externals["(*encoding/json.Decoder).UseNumber"] = func(fr *frame, a []value) value {
		fr.i.nativeDec(a[0]).d.UseNumber()
		return nil
	}
	externals["(*encoding/json.Decoder).Decode"] = func(fr *frame, a []value) value {
		i := fr.i
		nd := i.nativeDec(a[0])
		target := a[1].(iface)
		p, isPtr := target.v.(*value)
		if pt, ok := target.t.Underlying().(*types.Pointer); !isPtr || p == nil || !ok || !types.IsInterface(pt.Elem()) {
			panic(pathEnd{kind: "unsupported", msg: "Decoder.Decode into something other than *interface{}"})
		}
		var x interface{}
		if err := nd.d.Decode(&x); err != nil {
			if err == io.EOF {
				return i.ioEOF()
			}
			return i.callByName(fr, "errors.New", err.Error())
		}
		i.write(p, i.toEngineAnyNum(x))
		return iface{}
	}
	externals["(*encoding/json.Decoder).Token"] = func(fr *frame, a []value) value {
		i := fr.i
		nd := i.nativeDec(a[0])
		tok, err := nd.d.Token()
		if err != nil {
			if err == io.EOF {
				return tuple{iface{}, i.ioEOF()}
			}
			return tuple{iface{}, i.callByName(fr, "errors.New", err.Error())}
		}
		switch t := tok.(type) {
		case json.Delim:
			return tuple{iface{i.jsonNamed("Delim"), int32(t)}, iface{}}
		}
		return tuple{i.toEngineAnyNum(tok), iface{}}
	}
}
