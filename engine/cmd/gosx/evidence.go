package main

import (
	"encoding/json"
	"fmt"
	"os"
	"path/filepath"
	"sort"
	"strings"

	"gosx/explore"
)

type evidence struct {
	prop, tier string
	seed       int
	pc         *propCfg

	Paths, Decisions, Forks              int
	Obligations, Discharged, Undecided   int
	Violations, Unconfirmed, ReplaysRun  int
	MonitorNotes                         int
	Validated                            int
	Queries                              int
	SolverS                              float64
	Steps                                int64
	Unknowns                             int
	Ends                                 map[string]int
	KnownSeen                            map[string]int
	Harnesses                            []map[string]interface{}
	Samples                              []interface{}
	ViolationSamples                     []interface{}
	Funcs                                map[string]int64
	Stubs                                map[string]int64
	funcsBase, stubsBase                 map[string]int64 // totals of the worker pools already closed
	Problems                             []string
	WallS                                float64
	Exit                                 int
	Exhaustive                           bool
}

func newEvidence(prop, tier string, seed int, pc *propCfg) *evidence {
	return &evidence{prop: prop, tier: tier, seed: seed, pc: pc, Ends: map[string]int{}, KnownSeen: map[string]int{},
		Funcs: map[string]int64{}, Stubs: map[string]int64{}, Exhaustive: true}
}

func (e *evidence) addHarness(fn string, params map[string]int, s *explore.Summary) {
	e.Paths += s.Paths
	e.Decisions += s.Decisions
	e.Forks += s.Forks
	e.Queries += s.Queries
	e.SolverS += float64(s.SolverNs) / 1e9
	e.Steps += s.Steps
	e.Unknowns += s.Unknowns
	for k, v := range s.Ends {
		e.Ends[k] += v
	}
	obl := map[string]interface{}{}
	for id, o := range s.Obligations {
		e.Obligations += o.Total
		e.Discharged += o.Discharged
		e.Undecided += o.Undecided
		obl[id] = map[string]int{"instances": o.Total, "discharged": o.Discharged, "violated": o.Violated, "undecided": o.Undecided}
	}
	if s.Truncated || s.Ends["unsupported"] > 0 || s.Ends["engine-error"] > 0 || s.Ends["budget"] > 0 || s.Unknowns > 0 {
		e.Exhaustive = false
	}
	var reached []string
	for r := range s.Reached {
		reached = append(reached, r)
	}
	sort.Strings(reached)
	e.Harnesses = append(e.Harnesses, map[string]interface{}{
		"harness": fn, "params": params, "paths": s.Paths, "path_ends": s.Ends, "decisions": s.Decisions,
		"obligations": obl, "queries": s.Queries, "solver_s": round1(float64(s.SolverNs) / 1e9), "wall_s": round1(s.WallS),
		"instructions_interpreted": s.Steps, "reached": reached, "truncated": s.Truncated,
	})
	for _, smp := range s.Samples {
		if len(e.Samples) < 12 {
			smp["harness"] = fn
			e.Samples = append(e.Samples, smp)
		}
	}
	for f, n := range s.Funcs {
		e.Funcs[f] = e.funcsBase[f] + n // cumulative per worker pool: base + the pool's latest totals
	}
	for f, n := range s.Stubs {
		e.Stubs[f] = e.stubsBase[f] + n
	}
}

// rebase is called before the worker pool is replaced: what it counted so far becomes
// the base the next pool's counters are added to.
func (e *evidence) rebase() {
	e.funcsBase, e.stubsBase = map[string]int64{}, map[string]int64{}
	for f, n := range e.Funcs {
		e.funcsBase[f] = n
	}
	for f, n := range e.Stubs {
		e.stubsBase[f] = n
	}
}

func round1(x float64) float64 { return float64(int(x*10+0.5)) / 10 }

func (e *evidence) write(path string) error {
	os.MkdirAll(filepath.Dir(path), 0755)
	// functions encoded: repo functions executed symbolically, by instruction count
	type fc struct {
		name string
		n    int64
	}
	var repoFuncs, otherFuncs []fc
	for f, n := range e.Funcs {
		if strings.Contains(f, "sdcio/yang-parser") && !strings.Contains(f, "/vrt.") && !strings.Contains(f, "VerifH_") {
			repoFuncs = append(repoFuncs, fc{f, n})
		} else {
			otherFuncs = append(otherFuncs, fc{f, n})
		}
	}
	sort.Slice(repoFuncs, func(a, b int) bool { return repoFuncs[a].n > repoFuncs[b].n })
	var encoded []string
	for k, f := range repoFuncs {
		if k >= 60 {
			break
		}
		encoded = append(encoded, fmt.Sprintf("%s (%d instr)", f.name, f.n))
	}
	var stubs []string
	for s, n := range e.Stubs {
		if strings.Contains(s, "/vrt.") {
			continue
		}
		stubs = append(stubs, fmt.Sprintf("%s ×%d", s, n))
	}
	sort.Strings(stubs)
	samples := e.Samples
	if len(samples) == 0 {
		samples = []interface{}{map[string]interface{}{"note": "no completed path"}}
	}
	level := e.pc.Level
	if level == "" {
		level = "model_checking"
	}
	cov := map[string]interface{}{
		"states":                        e.Paths,
		"transitions":                   e.Decisions,
		"traces_validated_against_impl": e.Validated,
		"samples":                       samples,
		"obligations":                   e.Obligations,
		"discharged":                    e.Discharged,
		"undecided":                     e.Undecided,
		"exhaustive":                    e.Exhaustive && e.Exit != 2,
		"explanation": "bounded symbolic execution of the real Go code (go/ssa of /repo's working tree + harness) with gosx: 'states' = completed symbolic paths, " +
			"'transitions' = decisions taken on them (each decided by an SMT feasibility query or a cached model), 'obligations' = vrt.Assert instances met on those paths, " +
			"'discharged' = instances for which PC ∧ ¬assert (∧ ¬open known-finding classes) was unsat; every sat answer is replayed natively before it is reported. " +
			e.pc.Explanation,
		"path_ends":                e.Ends,
		"forks":                    e.Forks,
		"queries":                  e.Queries,
		"solver_s":                 round1(e.SolverS),
		"instructions_interpreted": e.Steps,
		"solver_unknowns":          e.Unknowns,
		"harnesses":                e.Harnesses,
		"functions_encoded":        encoded,
		"functions_encoded_count":  len(repoFuncs),
		"library_functions_executed": len(otherFuncs),
		"stubs_hit":                stubs,
		"bounds":                   e.pc.Bounds,
		"known_findings_seen":      e.KnownSeen,
		"counterexamples_replayed": e.ReplaysRun,
		"counterexamples_unconfirmed": e.Unconfirmed,
		"monitor_conditions_not_met_but_unconfirmed": e.MonitorNotes,
		"violation_samples":        e.ViolationSamples,
		"problems":                 e.Problems,
		"exit":                     e.Exit,
	}
	doc := map[string]interface{}{
		"property_id": e.prop,
		"tier":        e.tier,
		"seed":        e.seed,
		"level":       level,
		"coverage":    cov,
		"assumptions": append([]string{
			"SMT solver answers are trusted for 'unsat' (z3 5.1.0); every 'sat' answer is re-checked by native execution",
			"the gosx interpreter implements Go SSA semantics; validated per run by native re-execution of passing paths (traces_validated_against_impl)",
			"intrinsics listed in stubs_hit follow their documented contracts",
		}, e.pc.Assumptions...),
		"wall_s":     round1(e.WallS),
		"violations": e.Violations,
	}
	b, err := json.MarshalIndent(doc, "", " ")
	if err != nil {
		return err
	}
	return os.WriteFile(path, b, 0644)
}
