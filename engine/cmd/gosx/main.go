// gosx: bounded symbolic execution of Go SSA for the /verif checks.
//
//	gosx run   -pkg <repo-rel dir> -fn VerifH_X [-param k=v ...]     (one harness, for development)
//	gosx check -prop C01 -tier quick|thorough                       (a registered property check)
package main

import (
	"encoding/json"
	"flag"
	"fmt"
	"os"
	"runtime"
	"sort"
	"strconv"
	"strings"
	"time"

	"gosx/explore"
	"gosx/interp"
	"gosx/load"
)

var initAllow = []string{
	load.Module, "github.com/danos/",
	"unicode", "strconv", "strings", "bytes", "sort", "slices", "math", "regexp", "io", "time",
	"net/url", "path", "maps", "cmp", "iter", "unique", "html", "encoding/hex", "encoding/base64", "encoding/xml",
	"bufio", "container/", "text/", "internal/itoa", "internal/stringslite", "internal/byteorder",
}

var initDeny = []string{load.Module + "/vrt"}

// packages whose initialisers need reflection: never run (their entry points are stubbed)
var initNever = []string{"github.com/danos/encoding/rfc7951"}

func initOK(path string) bool {
	for _, d := range initNever {
		if path == d || strings.HasPrefix(path, d+"/") {
			return false
		}
	}
	for _, d := range initDeny {
		if path == d {
			return true
		}
	}
	for _, a := range initAllow {
		if path == a || strings.HasPrefix(path, a+"/") || (strings.HasSuffix(a, "/") && strings.HasPrefix(path, a)) {
			return true
		}
	}
	return false
}

type paramList map[string]int

func (p paramList) String() string { return fmt.Sprint(map[string]int(p)) }
func (p paramList) Set(s string) error {
	k, v, ok := strings.Cut(s, "=")
	if !ok {
		return fmt.Errorf("want k=v")
	}
	n, err := strconv.Atoi(v)
	if err != nil {
		return err
	}
	p[k] = n
	return nil
}

func main() {
	if len(os.Args) < 2 {
		fmt.Fprintln(os.Stderr, "usage: gosx run|check ...")
		os.Exit(2)
	}
	switch os.Args[1] {
	case "run":
		os.Exit(cmdRun(os.Args[2:]))
	case "check":
		os.Exit(cmdCheck(os.Args[2:]))
	}
	fmt.Fprintln(os.Stderr, "unknown subcommand")
	os.Exit(2)
}

type common struct {
	repo, verif string
	workers     int
	solver      string
	timeoutMs   int
	maxSteps    int64
	unwind      int
	debug       bool
	trace       bool
	verbose     bool
}

func (c *common) flags(fs *flag.FlagSet) {
	fs.StringVar(&c.repo, "repo", "/repo", "repository under test")
	fs.StringVar(&c.verif, "verif", "/verif", "verification directory")
	fs.IntVar(&c.workers, "workers", runtime.NumCPU(), "parallel workers")
	fs.StringVar(&c.solver, "solver", "z3-new", "z3 | z3-new | cvc5")
	fs.IntVar(&c.timeoutMs, "timeout-ms", 60000, "per-query solver timeout")
	fs.Int64Var(&c.maxSteps, "max-steps", 20000000, "instruction budget per path")
	fs.IntVar(&c.unwind, "unwind", 100000, "per-frame block visit bound")
	fs.BoolVar(&c.debug, "debug", false, "engine stack traces")
	fs.BoolVar(&c.trace, "trace", false, "trace instructions (single worker)")
	fs.BoolVar(&c.verbose, "v", false, "progress output")
}

func (c *common) config(prog *load.Program, initPkg string) *interp.Config {
	cfg := &interp.Config{
		Prog: prog.Prog, Sizes: prog.Sizes, InitOK: initOK, FuncByName: prog.FuncByName,
		Solver: c.solver, TimeoutMs: c.timeoutMs, MaxSteps: c.maxSteps, MaxDepth: 2500, Unwind: c.unwind,
		Debug: c.debug, Trace: c.trace, TraceW: os.Stderr, OpenKF: map[string]bool{}, Params: map[string]int{},
		MaxConcretise: 16,
	}
	cfg.InitPkgs = append(cfg.InitPkgs, prog.Pkgs[initPkg])
	return cfg
}

func cmdRun(args []string) int {
	fs := flag.NewFlagSet("run", flag.ExitOnError)
	var c common
	c.flags(fs)
	pkg := fs.String("pkg", "", "repo-relative package directory of the harness")
	fn := fs.String("fn", "", "harness function")
	maxPaths := fs.Int("max-paths", 0, "stop after this many paths")
	validate := fs.Int("validate", 0, "native differential validation cases")
	params := paramList{}
	fs.Var(params, "param", "harness parameter k=v (repeatable)")
	kf := fs.String("open-kf", "", "comma separated open known-finding classes")
	fs.Parse(args)
	if c.trace {
		c.workers = 1
	}
	t0 := time.Now()
	env, err := load.NewEnv(c.repo, c.verif+"/harness", c.verif+"/engine")
	if err != nil {
		fmt.Fprintln(os.Stderr, "gosx:", err)
		return 2
	}
	defer env.Close()
	prog, err := env.Load(*pkg)
	if err != nil {
		fmt.Fprintln(os.Stderr, "gosx:", err)
		return 2
	}
	tLoad := time.Since(t0)
	cfg := c.config(prog, load.Module+"/"+*pkg)
	cfg.Params = params
	for _, k := range strings.Split(*kf, ",") {
		if k != "" {
			cfg.OpenKF[k] = true
		}
	}
	entry := prog.Pkgs[load.Module+"/"+*pkg].Func(*fn)
	if entry == nil {
		fmt.Fprintf(os.Stderr, "gosx: no function %s in %s\n", *fn, *pkg)
		return 2
	}
	t1 := time.Now()
	pool, err := explore.NewPool(cfg, c.workers)
	if err != nil {
		fmt.Fprintln(os.Stderr, "gosx:", err)
		return 2
	}
	defer pool.Close()
	tInit := time.Since(t1)
	s := pool.Explore(entry, explore.Options{MaxPaths: *maxPaths, Validate: *validate, Verbose: c.verbose})
	fmt.Printf("load %.1fs init %.1fs explore %.1fs\n", tLoad.Seconds(), tInit.Seconds(), s.WallS)
	printSummary(s)
	if c.debug {
		for k, smp := range s.Samples {
			if k >= 2 {
				break
			}
			if obs, ok := smp["observed"].([]string); ok {
				for _, o := range obs {
					fmt.Println("  OBSERVED", strings.ReplaceAll(o, "\\n", "\n      "))
				}
			}
		}
	}
	if *validate > 0 && len(s.ValCases) > 0 {
		r, err := nativeValidate(env, *pkg, *fn, params, nil, s.ValCases)
		if err != nil {
			fmt.Println("validation error:", err)
		} else {
			fmt.Printf("validated %d cases natively, %d mismatches\n", r.Agreed+len(r.Mismatches), len(r.Mismatches))
			for _, m := range r.Mismatches {
				fmt.Println("  MISMATCH", m)
			}
		}
	}
	return 0
}

func printSummary(s *explore.Summary) {
	fmt.Printf("harness %s: paths=%d decisions=%d forks=%d steps=%d queries=%d solver=%.1fs unknowns=%d truncated=%v\n",
		s.Harness, s.Paths, s.Decisions, s.Forks, s.Steps, s.Queries, float64(s.SolverNs)/1e9, s.Unknowns, s.Truncated)
	fmt.Printf("  ends: %v\n", s.Ends)
	for k, msgs := range s.EndSamples {
		for j, m := range msgs {
			if len(m) > 600 {
				m = m[:600] + "…"
			}
			fmt.Printf("  %s: %s   model=%v\n", k, m, s.EndModels[k][j])
		}
	}
	var ids []string
	for id := range s.Obligations {
		ids = append(ids, id)
	}
	sort.Strings(ids)
	for _, id := range ids {
		o := s.Obligations[id]
		fmt.Printf("  obligation %-40s total=%d discharged=%d violated=%d undecided=%d\n", id, o.Total, o.Discharged, o.Violated, o.Undecided)
	}
	for _, v := range s.Violations {
		b, _ := json.Marshal(v.Model)
		fmt.Printf("  VIOLATION-CANDIDATE %s model=%s\n", v.ID, b)
		if os.Getenv("GOSX_SHOW_OBSERVED") != "" {
			for _, o := range v.Observed {
				fmt.Printf("      engine-observed %s\n", o)
			}
		}
	}
	for k := range s.KFSeen {
		fmt.Printf("  known-finding class seen: %s\n", k)
	}
	var rs []string
	for r, n := range s.Reached {
		rs = append(rs, fmt.Sprintf("%s×%d", r, n))
	}
	sort.Strings(rs)
	fmt.Printf("  reached: %v\n", rs)
}
