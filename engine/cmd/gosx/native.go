package main

import (
	"encoding/json"
	"fmt"
	"os"
	"os/exec"
	"path/filepath"
	"strings"
	"time"

	"gosx/explore"
	"gosx/load"
	"gosx/smt"
)

type nativeCase struct {
	Harness string            `json:"harness"`
	Params  map[string]int    `json:"params"`
	Model   map[string]uint64 `json:"model"`
	OpenKF  []string          `json:"open_kf"`
}

type nativeOutcome struct {
	Observed []string `json:"observed"`
	Failed   []string `json:"failed"`
	Known    []string `json:"known"`
	Panic    string   `json:"panic"`
	Reached  []string `json:"reached"`
	Assumed  bool     `json:"assumed"`
	Timeout  bool     `json:"timeout"`
}

var builtTests = map[string]string{}

func goEnvNative() []string {
	var out []string
	for _, kv := range os.Environ() {
		if strings.HasPrefix(kv, "GOFLAGS=") || strings.HasPrefix(kv, "GOPROXY=") || strings.HasPrefix(kv, "GOTOOLCHAIN=") || strings.HasPrefix(kv, "GOSUMDB=") {
			continue
		}
		out = append(out, kv)
	}
	return append(out, "GOFLAGS=-mod=mod", "GOPROXY=off", "GOTOOLCHAIN=auto")
}

// buildTest compiles the native replay binary of one harness package (once per process).
func buildTest(env *load.Env, pkg string, race bool) (string, error) {
	key := fmt.Sprintf("%s|%v", pkg, race)
	if p, ok := builtTests[key]; ok {
		return p, nil
	}
	ov, err := env.OverlayFile()
	if err != nil {
		return "", err
	}
	out := filepath.Join(env.Scratch, strings.ReplaceAll(pkg, "/", "_")+fmt.Sprintf("_%v.test", race))
	args := []string{"test", "-c", "-vet=off", "-overlay", ov, "-o", out}
	if race {
		args = append(args, "-race")
	}
	args = append(args, "./"+pkg)
	cmd := exec.Command("go", args...)
	cmd.Dir = env.Repo
	cmd.Env = goEnvNative()
	if b, err := cmd.CombinedOutput(); err != nil {
		return "", fmt.Errorf("go test -c %s: %v\n%s", pkg, err, b)
	}
	builtTests[key] = out
	return out, nil
}

// runNative executes the cases natively and returns one outcome per case.
func runNative(env *load.Env, pkg string, cases []nativeCase, watchdogMs int, race bool) ([]nativeOutcome, error) {
	bin, err := buildTest(env, pkg, race)
	if err != nil {
		return nil, err
	}
	var all []nativeOutcome
	rest := cases
	for round := 0; len(rest) > 0; round++ {
		in := filepath.Join(env.Scratch, fmt.Sprintf("cases_%d_%d.json", os.Getpid(), time.Now().UnixNano()))
		out := in + ".out"
		b, _ := json.Marshal(rest)
		if err := os.WriteFile(in, b, 0644); err != nil {
			return nil, err
		}
		cmd := exec.Command(bin, "-test.run", "^TestVerifReplay$", "-test.timeout", "0")
		cmd.Dir = filepath.Join(env.Repo, pkg)
		cmd.Env = append(os.Environ(), "VERIF_REPLAY="+in, "VERIF_REPLAY_OUT="+out, fmt.Sprintf("VERIF_WATCHDOG_MS=%d", watchdogMs))
		if race {
			// the first data race ends the process: the case in progress is then reported
			// as died with the race report in its text
			cmd.Env = append(cmd.Env, "GORACE=halt_on_error=1")
		}
		done := make(chan error, 1)
		var combined []byte
		go func() {
			var e error
			combined, e = cmd.CombinedOutput()
			done <- e
		}()
		var runErr error
		select {
		case runErr = <-done:
		case <-time.After(time.Duration(watchdogMs*(len(rest)+1))*time.Millisecond + 60*time.Second):
			cmd.Process.Kill()
			runErr = fmt.Errorf("native run killed by outer watchdog")
		}
		var outs []nativeOutcome
		if ob, err := os.ReadFile(out); err == nil {
			json.Unmarshal(ob, &outs)
		}
		os.Remove(in)
		os.Remove(out)
		if len(outs) == 0 {
			// the process died before writing anything: treat the first case as a crash
			txt := string(combined)
			if len(txt) > 2000 {
				txt = txt[:2000]
			}
			outs = []nativeOutcome{{Panic: fmt.Sprintf("process died: %v: %s", runErr, txt)}}
			if k := strings.Index(string(combined), "WARNING: DATA RACE"); k >= 0 {
				rep := string(combined)[k:]
				if len(rep) > 1500 {
					rep = rep[:1500]
				}
				outs[0].Panic = "process died: " + rep
			}
			if strings.Contains(txt, "stack overflow") || strings.Contains(txt, "goroutine stack exceeds") {
				outs[0].Panic = "fatal: stack overflow"
			}
		}
		all = append(all, outs...)
		if len(outs) >= len(rest) {
			break
		}
		rest = rest[len(outs):]
		if round > len(cases)+2 {
			return all, fmt.Errorf("native runner made no progress")
		}
	}
	return all, nil
}

type valResult struct {
	Agreed     int
	Mismatches []string
}

func modelMap(m smt.Model) map[string]uint64 {
	r := map[string]uint64{}
	for k, v := range m {
		r[k] = v
	}
	return r
}

// nativeValidate re-runs passing paths natively and compares the observation logs.
func nativeValidate(env *load.Env, pkg, fn string, params map[string]int, openKF []string, cases []explore.ValCase) (*valResult, error) {
	var nc []nativeCase
	for _, c := range cases {
		nc = append(nc, nativeCase{Harness: fn, Params: params, Model: modelMap(c.Model), OpenKF: openKF})
	}
	outs, err := runNative(env, pkg, nc, 20000, false)
	if err != nil {
		return nil, err
	}
	r := &valResult{}
	for k, o := range outs {
		if k >= len(cases) {
			break
		}
		want := cases[k].Observed
		got := o.Observed
		switch {
		case o.Timeout:
			r.Mismatches = append(r.Mismatches, fmt.Sprintf("case %d: native run timed out; model=%v", k, cases[k].Model))
		case o.Panic != "":
			r.Mismatches = append(r.Mismatches, fmt.Sprintf("case %d: native panic %q; model=%v", k, o.Panic, cases[k].Model))
		case o.Assumed:
			r.Mismatches = append(r.Mismatches, fmt.Sprintf("case %d: native run hit a false Assume; model=%v", k, cases[k].Model))
		case len(o.Failed) > 0:
			r.Mismatches = append(r.Mismatches, fmt.Sprintf("case %d: native assertion failures %v on a path the executor passed; model=%v", k, o.Failed, cases[k].Model))
		case strings.Join(want, "\n") != strings.Join(got, "\n"):
			r.Mismatches = append(r.Mismatches, fmt.Sprintf("case %d: observations differ\n    symbolic: %q\n    native:   %q\n    model=%v", k, want, got, cases[k].Model))
		default:
			r.Agreed++
		}
	}
	return r, nil
}
