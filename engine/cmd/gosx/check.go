package main

import (
	"golang.org/x/tools/go/ssa"
	"encoding/json"
	"flag"
	"fmt"
	"os"
	"path/filepath"
	"sort"
	"strconv"
	"strings"
	"time"

	"gosx/explore"
	"gosx/interp"
	"gosx/load"
	"gosx/smt"
)

type harnessCfg struct {
	Fn          string         `json:"fn"`
	Quick       map[string]int `json:"quick"`
	Thorough    map[string]int `json:"thorough"`
	Termination bool           `json:"termination"` // budget/deadlock ends are violation candidates (replayed under a watchdog)
	Reach       []string       `json:"reach"`       // witnesses that must be reached (vacuity guard)
	SkipQuick   bool           `json:"skip_quick"`
	TimeoutMs   int            `json:"timeout_ms"`
	MaxSteps    int64          `json:"max_steps"`
	Race        bool           `json:"race"`
	Pkg         string         `json:"pkg"` // package holding this harness when it differs from the property's
}

type propCfg struct {
	Pkg        string         `json:"pkg"`
	LoadPkg    string         `json:"load_pkg"` // package to load and initialise (default: pkg); must import every harness package
	Level      string         `json:"level"`
	Harnesses  []harnessCfg   `json:"harnesses"`
	Validate   map[string]int `json:"validate"`
	Assumptions []string      `json:"assumptions"`
	Bounds     []string       `json:"bounds"`
	Explanation string        `json:"explanation"`
}

type knownFinding struct {
	Property string `json:"property"`
	ID       string `json:"finding_id"`
	Status   string `json:"status"` // open | fixed
	Commit   string `json:"commit,omitempty"`
	Text     string `json:"text"`
}

type replayFile struct {
	Property  string            `json:"property"`
	Pkg       string            `json:"pkg"`
	Harness   string            `json:"harness"`
	Params    map[string]int    `json:"params"`
	Model     map[string]uint64 `json:"model"`
	Assertion string            `json:"assertion"`
	OpenKF    []string          `json:"open_kf"`
	Native    *nativeOutcome    `json:"native_outcome,omitempty"`
	Kind      string            `json:"kind"`
}

func readJSON(path string, v interface{}) error {
	b, err := os.ReadFile(path)
	if err != nil {
		return err
	}
	return json.Unmarshal(b, v)
}

func cmdCheck(args []string) int {
	fs := flag.NewFlagSet("check", flag.ExitOnError)
	var c common
	c.flags(fs)
	prop := fs.String("prop", "", "property id")
	tier := fs.String("tier", "quick", "quick | thorough")
	replay := fs.String("replay", "", "replay one stored counter-example natively and exit")
	only := fs.String("only", "", "run only this harness (development)")
	outDir := fs.String("out", "", "write evidence/ and replays/ below this directory instead of the verification directory (seed trials on a scratch copy of the repository)")
	fs.Parse(args)
	if *outDir == "" {
		*outDir = c.verif
	}
	if env := os.Getenv("VERIF_TIER"); env != "" && *tier == "" {
		*tier = env
	}
	if *replay != "" {
		return cmdReplay(&c, *replay)
	}
	t0 := time.Now()
	seed, _ := strconv.Atoi(os.Getenv("VERIF_SEED"))

	var props map[string]*propCfg
	if err := readJSON(filepath.Join(c.verif, "props.json"), &props); err != nil {
		fmt.Fprintln(os.Stderr, "gosx: props.json:", err)
		return 2
	}
	pc := props[*prop]
	if pc == nil {
		fmt.Fprintf(os.Stderr, "gosx: property %s is not configured\n", *prop)
		return 2
	}
	var kfs []knownFinding
	if err := readJSON(filepath.Join(c.verif, "known-findings.json"), &kfs); err != nil && !os.IsNotExist(err) {
		fmt.Fprintln(os.Stderr, "gosx: known-findings.json:", err)
		return 2
	}
	openKF := map[string]knownFinding{}
	var openList []string
	for _, k := range kfs {
		if k.Property == *prop && k.Status == "open" {
			openKF[k.ID] = k
			openList = append(openList, k.ID)
		}
	}
	sort.Strings(openList)

	env, err := load.NewEnv(c.repo, c.verif+"/harness", c.verif+"/engine")
	if err != nil {
		fmt.Fprintln(os.Stderr, "gosx:", err)
		return 2
	}
	defer env.Close()
	rootPkg := pc.Pkg
	if pc.LoadPkg != "" {
		rootPkg = pc.LoadPkg
	}
	prog, err := env.Load(rootPkg)
	if err != nil {
		fmt.Fprintln(os.Stderr, "gosx:", err)
		return 2
	}
	cfg := c.config(prog, load.Module+"/"+rootPkg)
	for k := range openKF {
		cfg.OpenKF[k] = true
	}
	pool, err := explore.NewPool(cfg, c.workers)
	if err != nil {
		fmt.Fprintln(os.Stderr, "gosx:", err)
		return 2
	}
	defer func() { pool.Close() }()
	lastFn := ""

	nValidate := pc.Validate[*tier]
	if nValidate == 0 {
		nValidate = 20
	}

	ev := newEvidence(*prop, *tier, seed, pc)
	exit := 0
	problem := func(format string, a ...interface{}) {
		msg := fmt.Sprintf(format, a...)
		fmt.Println("CHECK-PROBLEM:", msg)
		ev.Problems = append(ev.Problems, msg)
		if exit == 0 {
			exit = 2
		}
	}
	kfPrinted := map[string]bool{}
	replayN := 0
	replayDir := filepath.Join(*outDir, "replays", *prop)

	for _, h := range pc.Harnesses {
		if *only != "" && h.Fn != *only {
			continue
		}
		if *tier == "quick" && h.SkipQuick {
			continue
		}
		params := h.Quick
		if *tier == "thorough" && h.Thorough != nil {
			params = h.Thorough
		}
		if params == nil {
			params = map[string]int{}
		}
		cfg.Params = params
		cfg.TimeoutMs = c.timeoutMs
		if h.TimeoutMs > 0 {
			cfg.TimeoutMs = h.TimeoutMs
		}
		cfg.MaxSteps = c.maxSteps
		if h.MaxSteps > 0 {
			cfg.MaxSteps = h.MaxSteps
		}
		hpkg := pc.Pkg
		if h.Pkg != "" {
			hpkg = h.Pkg
		}
		var entry *ssa.Function
		if sp := prog.Pkgs[load.Module+"/"+hpkg]; sp != nil {
			entry = sp.Func(h.Fn)
		}
		if entry == nil {
			problem("harness %s not found in %s", h.Fn, hpkg)
			continue
		}
		if lastFn != "" && lastFn != h.Fn {
			// input variables are named by the harness: a fresh pool (interpreters, term
			// context, solver sessions) per harness function keeps equal names of
			// different sorts in different harnesses apart
			ev.rebase()
			pool.Close()
			pool, err = explore.NewPool(cfg, c.workers)
			if err != nil {
				fmt.Fprintln(os.Stderr, "gosx:", err)
				return 2
			}
		}
		lastFn = h.Fn
		s := pool.Explore(entry, explore.Options{Validate: nValidate, Verbose: c.verbose})
		ev.addHarness(h.Fn, params, s)
		if c.verbose {
			printSummary(s)
		}

		// --- machinery conditions
		if s.Truncated {
			problem("%s: exploration truncated", h.Fn)
		}
		for _, k := range []string{"unsupported", "engine-error", "infeasible"} {
			if s.Ends[k] > 0 {
				problem("%s: %d paths ended as %s, e.g. %s", h.Fn, s.Ends[k], k, first(s.EndSamples[k]))
			}
		}
		if s.Unknowns > 0 {
			problem("%s: %d solver answers were unknown/timeout (undecided obligations or branches)", h.Fn, s.Unknowns)
		}
		if s.SolverErrs > 0 {
			problem("%s: %d solver errors", h.Fn, s.SolverErrs)
		}
		nObl := 0
		for _, o := range s.Obligations {
			nObl += o.Total
			if o.Undecided > 0 {
				problem("%s: undecided obligations", h.Fn)
			}
		}
		if s.Ends["done"] == 0 || nObl == 0 {
			problem("%s: vacuous (done paths=%d, obligations=%d)", h.Fn, s.Ends["done"], nObl)
		}
		for _, r := range h.Reach {
			found := false
			for got := range s.Reached {
				if got == r || strings.HasPrefix(got, r) {
					found = true
				}
			}
			if !found {
				problem("%s: reachability witness %q was not reached (vacuous)", h.Fn, r)
			}
		}

		// --- candidates: assertion violations and abnormal path ends
		type cand struct {
			id      string
			kind    string
			model   smt.Model
			classes []string // open known-finding classes true in the model (abnormal ends)
		}
		var cands []cand
		for _, v := range s.Violations {
			cands = append(cands, cand{v.ID, "assert", v.Model, nil})
		}
		for _, k := range []string{"panic", "budget", "deadlock"} {
			for j, m := range s.EndModels[k] {
				if k != "panic" && !h.Termination {
					continue
				}
				if m == nil {
					problem("%s: path ended as %s without a model: %s", h.Fn, k, s.EndSamples[k][j])
					continue
				}
				var cls []string
				if j < len(s.EndClasses[k]) {
					cls = s.EndClasses[k][j]
				}
				cands = append(cands, cand{"no-" + k + ": " + clip(s.EndSamples[k][j], 160), k, m, cls})
			}
			if k != "panic" && !h.Termination && s.Ends[k] > 0 {
				problem("%s: %d paths exceeded a bound (%s), e.g. %s", h.Fn, s.Ends[k], k, first(s.EndSamples[k]))
			}
		}
		if len(cands) > 0 {
			var nc []nativeCase
			for _, cd := range cands {
				nc = append(nc, nativeCase{Harness: h.Fn, Params: params, Model: modelMap(cd.model), OpenKF: openList})
			}
			outs, err := runNative(env, hpkg, nc, 20000, h.Race)
			if err != nil {
				problem("%s: native replay failed: %v", h.Fn, err)
			}
			for j, cd := range cands {
				if j >= len(outs) {
					break
				}
				o := outs[j]
				reproduced := false
				switch cd.kind {
				case "assert":
					for _, f := range o.Failed {
						if f == cd.id {
							reproduced = true
						}
					}
					if o.Panic != "" || o.Timeout {
						reproduced = true
					}
				case "panic":
					reproduced = o.Panic != ""
				default:
					reproduced = o.Timeout || strings.Contains(o.Panic, "stack overflow") || strings.Contains(o.Panic, "process died")
				}
				knownNative := len(o.Known) > 0 && len(o.Failed) == 0 && o.Panic == "" && !o.Timeout
				ev.ReplaysRun++
				if !reproduced && strings.HasPrefix(cd.id, "monitor.") {
					// a sufficient condition (engine-side monitor) is not met, but the native
					// confirmation (stress under the race detector) found nothing: not a violation
					fmt.Printf("NOTE: %s: sufficient condition %q not met on this tree (model %v); native confirmation found no failure, so nothing is reported\n", h.Fn, cd.id, cd.model)
					ev.MonitorNotes++
					continue
				}
				if !reproduced {
					if knownNative {
						// the native run classifies it under an open finding
						for _, kk := range o.Known {
							cls := kk[strings.Index(kk, "|")+1:]
							if !kfPrinted[cls] {
								kfPrinted[cls] = true
								fmt.Printf("KNOWN-FINDING: property=%s %s %s\n", *prop, cls, openKF[cls].Text)
							}
						}
						continue
					}
					ev.Unconfirmed++
					problem("%s: counter-example for %q did not reproduce natively (model %v, native outcome %+v)", h.Fn, cd.id, cd.model, o)
					continue
				}
				if cd.kind != "assert" && len(cd.classes) > 0 {
					// a crash / hang that the harness attributes to an open known finding
					for _, cls := range cd.classes {
						ev.KnownSeen[cls]++
						if !kfPrinted[cls] {
							kfPrinted[cls] = true
							fmt.Printf("KNOWN-FINDING: property=%s %s %s\n", *prop, cls, openKF[cls].Text)
						}
					}
					continue
				}
				replayN++
				os.MkdirAll(replayDir, 0755)
				path := filepath.Join(replayDir, fmt.Sprintf("%s-%d.json", h.Fn, replayN))
				rf := replayFile{Property: *prop, Pkg: hpkg, Harness: h.Fn, Params: params, Model: modelMap(cd.model), Assertion: cd.id, OpenKF: openList, Native: &o, Kind: cd.kind}
				b, _ := json.MarshalIndent(rf, "", " ")
				os.WriteFile(path, b, 0644)
				fmt.Printf("VIOLATION property=%s replay=%s\n", *prop, path)
				fmt.Printf("  harness=%s assertion=%q native=%+v\n", h.Fn, cd.id, o)
				ev.Violations++
				ev.ViolationSamples = append(ev.ViolationSamples, map[string]interface{}{"harness": h.Fn, "assertion": cd.id, "model": modelMap(cd.model), "replay": path})
				exit = 1
			}
		}

		// --- known findings seen by the solver: confirm natively, then report
		var kfNames []string
		for k := range s.KFSeen {
			kfNames = append(kfNames, k)
		}
		sort.Strings(kfNames)
		if len(kfNames) > 0 {
			var nc []nativeCase
			for _, k := range kfNames {
				nc = append(nc, nativeCase{Harness: h.Fn, Params: params, Model: modelMap(s.KFSeen[k]), OpenKF: openList})
			}
			outs, err := runNative(env, hpkg, nc, 20000, false)
			if err != nil {
				problem("%s: native replay of known findings failed: %v", h.Fn, err)
			}
			for j, k := range kfNames {
				if j >= len(outs) {
					break
				}
				o := outs[j]
				ok := false
				for _, kk := range o.Known {
					if strings.HasSuffix(kk, "|"+k) {
						ok = true
					}
				}
				if !ok {
					problem("%s: known finding %s: solver model did not reproduce natively (model %v, native %+v)", h.Fn, k, s.KFSeen[k], o)
					continue
				}
				ev.KnownSeen[k]++
				if !kfPrinted[k] {
					kfPrinted[k] = true
					fmt.Printf("KNOWN-FINDING: property=%s %s %s\n", *prop, k, openKF[k].Text)
				}
			}
		}

		// --- differential validation of passing paths
		if len(s.ValCases) > 0 {
			vr, err := nativeValidate(env, hpkg, h.Fn, params, openList, s.ValCases)
			if err != nil {
				problem("%s: native validation failed: %v", h.Fn, err)
			} else {
				ev.Validated += vr.Agreed
				for _, m := range vr.Mismatches {
					problem("%s: engine/native disagreement: %s", h.Fn, m)
				}
			}
		}
	}
	ev.WallS = time.Since(t0).Seconds()
	ev.Exit = exit
	if err := ev.write(filepath.Join(*outDir, "evidence", *prop+".json")); err != nil {
		fmt.Fprintln(os.Stderr, "gosx: evidence:", err)
		return 2
	}
	fmt.Printf("property=%s tier=%s exit=%d paths=%d obligations=%d discharged=%d violations=%d known=%d validated=%d wall=%.1fs\n",
		*prop, *tier, exit, ev.Paths, ev.Obligations, ev.Discharged, ev.Violations, len(kfPrinted), ev.Validated, ev.WallS)
	return exit
}

func first(xs []string) string {
	if len(xs) == 0 {
		return ""
	}
	return clip(xs[0], 400)
}

func clip(s string, n int) string {
	if len(s) > n {
		return s[:n] + "…"
	}
	return s
}

// cmdReplay re-runs a stored counter-example natively; exit 1 when it still fails.
func cmdReplay(c *common, path string) int {
	var rf replayFile
	if err := readJSON(path, &rf); err != nil {
		fmt.Fprintln(os.Stderr, "gosx:", err)
		return 2
	}
	env, err := load.NewEnv(c.repo, c.verif+"/harness", c.verif+"/engine")
	if err != nil {
		fmt.Fprintln(os.Stderr, "gosx:", err)
		return 2
	}
	defer env.Close()
	outs, err := runNative(env, rf.Pkg, []nativeCase{{Harness: rf.Harness, Params: rf.Params, Model: rf.Model, OpenKF: rf.OpenKF}}, 20000, false)
	if err != nil || len(outs) == 0 {
		fmt.Fprintln(os.Stderr, "gosx: replay:", err)
		return 2
	}
	o := outs[0]
	b, _ := json.MarshalIndent(o, "", " ")
	fmt.Printf("replay of %s (%s, assertion %q):\n%s\n", path, rf.Harness, rf.Assertion, b)
	if len(o.Failed) > 0 || o.Panic != "" || o.Timeout {
		fmt.Printf("VIOLATION property=%s replay=%s\n", rf.Property, path)
		return 1
	}
	return 0
}

var _ = interp.OrderInsertion
